(* C13, lattice half - histories  run(); [caller raises / pushes rows]; run(); ...  of the lattice engine model
   LatEval.run_plan (which starts, as the generated run() does, by rebuilding every index from the rows:
   update_indices; nothing else of a previous run survives, so the program value between runs IS its rows).

   1. lat_rerun_idempotent: running again from the rows left by a (terminated) run leaves every relation
      unchanged - the same list of rows, hence the same number of rows and equal lattice values.  More generally
      (closed_run_unchanged) a run started from ANY legal rows that are closed under the rules changes nothing.
   2. lat_rerun_incremental / lat_history_fresh: after the caller joined further facts Delta into the rows (raising
      lattice values in place, pushing rows with new keys, into any relation, derived ones included), a further
      run holds exactly the rows of a fresh run on the join of all inputs - for every history
      run; modify; run; modify; run ...
      GUARD (exactly the one the code needs): the modified rows are a legal input (input_ok: declared arity,
      lattice elements, and AT MOST ONE ROW PER KEY in every lattice relation).  The generated update_indices
      never merges two rows with the same key (the key index keeps the last one, the other indices all of them):
      pushing a row whose key is already present leaves two rows for that key for good - see the remark, the
      experiment crate and the witness lat_rerun_dupkey_refuted in LatRExample.v.
   3. lat_rerun_push / lat_rerun_raise: the two concrete caller operations satisfy the abstract description
      [lub_of] used in 2. *)
From Coq Require Import List ZArith Bool Arith Lia Permutation.
From AV Require Import Engine.Core.
From AV Require Import Engine.Eval.
From AV Require Import Engine.Validate.
From AV Require Import Engine.Naive.
From AV Require Import LatEngine.LatSyntax.
From AV Require Import LatEngine.LatEval.
From AV Require Import LatEngine.LatPlan.
From AV Require Import LatEngine.LatSem.
From AV Require Import LatEngine.LatMono.
From AV Require Import LatEngine.LatBase.
From AV Require Import LatEngine.LatHead.
From AV Require Import LatEngine.LatScc.
From AV Require Import LatEngine.LatKeys.
From AV Require Import LatEngine.LatMain.
From AV Require Import LatEngine.LatRBase.
Import ListNotations.
Local Open Scope nat_scope.

Section Rerun.
Context {V : Type}.
Variable I : linterp V.
Hypothesis Heq : veqb_ok I.
Variable islat : rel -> bool.
Variable lle : rel -> V -> V -> Prop.
Variable jm : rel -> V -> V -> V * bool.
Hypothesis Hlaws : forall r, islat r = true -> lat_laws (lle r) (jm r).
Variable shuffle : nat -> list nat -> list nat.
Hypothesis Hshuf : forall n l x, In x (shuffle n l) <-> In x l.
Variable swap_oracle : nat -> list nat -> list nat -> bool.
Variable arities : list (rel * nat).
Hypothesis Hfun : arities_functional arities.
Variable P : list rule.
Hypothesis Hnoagg : no_agg P = true.
Hypothesis Hmono : monotone_program I islat lle P.
Variable pl : plan.
Hypothesis Hval : validate arities P pl = true.
Hypothesis Hlatplan : lat_plan_ok islat arities pl = true.

Notation tle := (tle I islat lle).
Notation below := (below I islat lle).
Notation dble := (dble I islat lle).
Notation directed := (directed I islat lle).
Notation closedH := (closedH I islat lle P).
Notation input_ok := (input_ok I islat lle arities).
Notation run := (run_plan I islat jm shuffle swap_oracle).
Notation is_lfp := (is_lfp I islat lle P).
Notation between := (between I islat lle arities P).

Lemma input_directed : forall R, input_ok R -> directed (dbof R).
Proof. intros R [_ [A2 A3]]. apply unique_directed; auto. Qed.

(* ---------- 1. idempotence ---------- *)
Theorem closed_run_unchanged : forall R1 fuel st2,
  input_ok R1 -> closedH (dbof R1) -> run fuel pl R1 = Some st2 -> forall r, l_rows st2 r = R1 r.
Proof.
  intros R1 fuel st2 Hin Hcl Hrun r. pose proof Hin as [A1 [A2 A3]].
  assert (Hb : allbelow I islat lle (dbof R1) R1) by (apply (dble_rows_refl I islat lle); exact A3).
  pose proof (lat_run_sound I Heq islat lle jm Hlaws shuffle Hshuf swap_oracle arities Hfun P Hnoagg Hmono pl Hval Hlatplan
                R1 Hin (dbof R1) fuel st2 (input_directed R1 Hin) Hcl Hb Hrun) as Hs.
  pose proof (lat_run_grows I Heq islat lle jm Hlaws shuffle Hshuf swap_oracle arities Hfun P Hnoagg Hmono pl Hval Hlatplan
                R1 Hin fuel st2 Hrun) as Hg.
  pose proof (lat_run_unique_key I Heq islat lle jm Hlaws shuffle Hshuf swap_oracle arities Hfun P Hnoagg Hmono pl Hval Hlatplan
                R1 Hin fuel st2 Hrun) as Hk2.
  destruct (islat r) eqn:E.
  - assert (H1 : forall i row1, nth_error (R1 r) i = Some row1 -> nth_error (l_rows st2 r) i = Some row1).
    { intros i row1 Hi. destruct (Hg r i row1 Hi) as [row2 [E2 L2]].
      destruct (Hs r row2 (nth_error_In _ _ E2)) as [t [Ht Lt]]. cbn [fst snd] in *. unfold dbof in Ht.
      assert (Et : t = row1).
      { apply (nodup_map_inj _ _ tkey (R1 r)); auto; [eapply nth_error_In; eauto|].
        pose proof (tle_trans I islat lle jm Hlaws r _ _ _ L2 Lt) as L. unfold LatSem.tle in L. rewrite E in L. symmetry. tauto. }
      subst t. rewrite E2. f_equal. symmetry. apply (tle_antisym I islat lle jm Hlaws r); auto. }
    assert (Hlen : length (l_rows st2 r) <= length (R1 r)).
    { destruct (le_lt_dec (length (l_rows st2 r)) (length (R1 r))) as [Hle|Hlt]; [exact Hle|]. exfalso.
      destruct (nth_error (l_rows st2 r) (length (R1 r))) as [row|] eqn:Ej; [|apply nth_error_None in Ej; lia].
      destruct (Hs r row (nth_error_In _ _ Ej)) as [t [Ht Lt]]. cbn [fst snd] in *. unfold dbof in Ht.
      apply In_nth_error in Ht. destruct Ht as [i Hi]. pose proof (nth_error_In_lt _ _ _ _ Hi) as Hil.
      pose proof (H1 i t Hi) as Hi2. pose proof (Hk2 r E) as Hnd. rewrite NoDup_nth_error in Hnd.
      assert (Hij : i = length (R1 r)).
      { apply Hnd; [rewrite map_length; lia|]. rewrite (map_nth_error tkey _ _ Hi2), (map_nth_error tkey _ _ Ej).
        f_equal. unfold LatSem.tle in Lt. rewrite E in Lt. symmetry. tauto. }
      lia. }
    apply nth_error_all_eq. intros i. destruct (nth_error (R1 r) i) as [row1|] eqn:Ei; [apply H1; exact Ei|].
    apply nth_error_None in Ei. apply nth_error_None. lia.
  - pose proof (run_plan_padd I Heq islat jm shuffle swap_oracle arities P Hnoagg pl Hval fuel R1 st2 A2 Hrun) as Hp.
    destruct (Hp r E) as [a [Ea [Na Da]]]. rewrite Ea. destruct a as [|t a]; [apply app_nil_r|]. exfalso.
    assert (Hin2 : In t (l_rows st2 r)) by (rewrite Ea; apply in_or_app; right; left; reflexivity).
    destruct (Hs r t Hin2) as [t' [Ht' Lt']]. cbn [fst snd] in *.
    apply (tle_plain I islat lle r t t' E) in Lt'. subst t'. exact (Da t (or_introl eq_refl) Ht').
Qed.

(* the statement needs the first run to have TERMINATED (run .. = Some st1: within the fuel); the second run is
   then unchanged whenever it terminates *)
Theorem lat_rerun_idempotent : forall Rin fuel fuel' st1 st2,
  input_ok Rin -> run fuel pl Rin = Some st1 -> run fuel' pl (l_rows st1) = Some st2 ->
  forall r, l_rows st2 r = l_rows st1 r.
Proof.
  intros Rin fuel fuel' st1 st2 Hin H1 H2. apply (closed_run_unchanged (l_rows st1) fuel' st2); auto.
  - exact (run_input_ok I Heq islat lle jm Hlaws shuffle Hshuf swap_oracle arities Hfun P Hnoagg Hmono pl Hval Hlatplan Rin fuel st1 Hin H1).
  - exact (lat_run_closed I Heq islat lle jm Hlaws shuffle Hshuf swap_oracle arities Hfun P Hnoagg Hmono pl Hval Hlatplan Rin Hin fuel st1 H1).
Qed.

(* ---------- 2. monotone re-runs ---------- *)
(* B is a least directed upper bound of A and D together: "A with the facts D joined in" *)
Definition lub_of (A D B : db (V:=V)) : Prop :=
  dble A B /\ dble D B /\ forall J : db, directed J -> dble A J -> dble D J -> dble B J.

(* one step of a history: the rows R hold the least fixed point of the (virtual) accumulated input Rall; the caller
   joins Delta into R, giving R'; the same Delta joined into Rall gives Rall'; a run from R' computes the least fixed
   point of Rall' *)
Lemma rerun_step : forall Rall R (Delta : db) R' Rall' fuel st,
  input_ok R -> is_lfp Rall (dbof R) ->
  input_ok R' -> lub_of (dbof R) Delta (dbof R') ->
  lub_of (dbof Rall) Delta (dbof Rall') ->
  run fuel pl R' = Some st ->
  input_ok (l_rows st) /\ is_lfp Rall' (dbof (l_rows st)).
Proof.
  intros Rall R Delta R' Rall' fuel st HR [F1 [F2 [F3 F4]]] HR' [U1 [U2 U3]] [W1 [W2 W3]] Hrun.
  split; [exact (run_input_ok I Heq islat lle jm Hlaws shuffle Hshuf swap_oracle arities Hfun P Hnoagg Hmono pl Hval Hlatplan R' fuel st HR' Hrun)|].
  apply (run_from_between I Heq islat lle jm Hlaws shuffle Hshuf swap_oracle arities Hfun P Hnoagg Hmono pl Hval Hlatplan Rall' R' fuel st); [|exact Hrun].
  split; [exact HR'|]. split.
  - apply W3; [apply input_directed; exact HR' | | exact U2]. exact (dble_trans I islat lle jm Hlaws _ _ _ F3 U1).
  - intros J HJd HJc HJ. apply U3; [exact HJd | | exact (dble_trans I islat lle jm Hlaws _ _ _ W2 HJ)].
    apply F4; auto. exact (dble_trans I islat lle jm Hlaws _ _ _ W1 HJ).
Qed.

(* histories run; modify; run; modify; run ... : [hist Rall R] = the rows R are what such a history leaves behind,
   Rall is the join of everything the caller ever put in *)
Inductive hist : (rel -> list (vtuple V)) -> (rel -> list (vtuple V)) -> Prop :=
| hist_run : forall Rin fuel st, input_ok Rin -> run fuel pl Rin = Some st -> hist Rin (l_rows st)
| hist_step : forall Rall R (Delta : db) R' Rall' fuel st,
    hist Rall R -> input_ok R' -> lub_of (dbof R) Delta (dbof R') ->
    input_ok Rall' -> lub_of (dbof Rall) Delta (dbof Rall') ->
    run fuel pl R' = Some st -> hist Rall' (l_rows st).

Lemma hist_lfp : forall Rall R, hist Rall R -> input_ok Rall /\ input_ok R /\ is_lfp Rall (dbof R).
Proof.
  intros Rall R H. induction H as [Rin fuel st Hin Hrun|Rall R Delta R' Rall' fuel st H IH HR' HU HRall' HW Hrun].
  - split; [exact Hin|]. split.
    + exact (run_input_ok I Heq islat lle jm Hlaws shuffle Hshuf swap_oracle arities Hfun P Hnoagg Hmono pl Hval Hlatplan Rin fuel st Hin Hrun).
    + exact (run_lfp I Heq islat lle jm Hlaws shuffle Hshuf swap_oracle arities Hfun P Hnoagg Hmono pl Hval Hlatplan Rin fuel st Hin Hrun).
  - destruct IH as [_ [HR HF]]. split; [exact HRall'|]. exact (rerun_step Rall R Delta R' Rall' fuel st HR HF HR' HU HW Hrun).
Qed.

(* after any history the rows are those of ONE fresh run on the join of all inputs: the same rows in every
   relation, and for lattice relations the same number of rows (one per key) *)
Theorem lat_history_fresh : forall Rall R fuel st,
  hist Rall R -> run fuel pl Rall = Some st ->
  (forall r t, In t (R r) <-> In t (l_rows st r)) /\ (forall r, islat r = true -> Permutation (R r) (l_rows st r)).
Proof.
  intros Rall R fuel st H Hrun. destruct (hist_lfp Rall R H) as [HRall [HR HF]].
  apply (lfp_same_rows I islat lle jm Hlaws P Rall R (l_rows st)); [exact (proj1 (proj2 HR)) | | exact HF |].
  - refine (proj1 (proj2 _)). apply (run_input_ok I Heq islat lle jm Hlaws shuffle Hshuf swap_oracle arities Hfun P Hnoagg Hmono pl Hval Hlatplan Rall fuel st HRall Hrun).
  - exact (run_lfp I Heq islat lle jm Hlaws shuffle Hshuf swap_oracle arities Hfun P Hnoagg Hmono pl Hval Hlatplan Rall fuel st HRall Hrun).
Qed.

(* the one-step form: run; join Delta in; run  =  fresh run on the input with Delta joined in *)
Theorem lat_rerun_incremental : forall Rin fuel st1 (Delta : db) R1' Rall fuel2 fuel3 st2 st3,
  input_ok Rin -> run fuel pl Rin = Some st1 ->
  input_ok R1' -> lub_of (dbof (l_rows st1)) Delta (dbof R1') ->
  input_ok Rall -> lub_of (dbof Rin) Delta (dbof Rall) ->
  run fuel2 pl R1' = Some st2 -> run fuel3 pl Rall = Some st3 ->
  (forall r t, In t (l_rows st2 r) <-> In t (l_rows st3 r)) /\
  (forall r, islat r = true -> Permutation (l_rows st2 r) (l_rows st3 r)).
Proof.
  intros Rin fuel st1 Delta R1' Rall fuel2 fuel3 st2 st3 Hin H1 HR1' HU HRall HW H2 H3.
  apply (lat_history_fresh Rall (l_rows st2) fuel3 st3); [|exact H3].
  apply (hist_step Rin (l_rows st1) Delta R1' Rall fuel2 st2); auto. apply (hist_run Rin fuel st1); auto.
Qed.

(* ---------- 3. the concrete caller operations ---------- *)
Definition appr (R F : rel -> list (vtuple V)) : rel -> list (vtuple V) := fun r => R r ++ F r.

(* pushing rows F *)
Lemma lub_push : forall R F, rows_wf I islat lle (appr R F) -> lub_of (dbof R) (dbof F) (dbof (appr R F)).
Proof.
  intros R F Hwf.
  assert (Hself : forall r t, In t (appr R F r) -> below (dbof (appr R F)) (r, t)).
  { intros r t Ht. exists t. split; [exact Ht|]. cbn [fst snd]. apply (tle_refl I islat lle). intros E. apply (Hwf r t E Ht). }
  split; [|split].
  - intros r t Ht. apply Hself. unfold appr. apply in_or_app. left. exact Ht.
  - intros r t Ht. apply Hself. unfold appr. apply in_or_app. right. exact Ht.
  - intros J _ HA HD r t Ht. unfold dbof, appr in Ht. apply in_app_or in Ht. destruct Ht as [Ht|Ht]; [apply HA | apply HD]; exact Ht.
Qed.

Lemma rle_keys_incl : forall R R' r, islat r = true -> LatBase.rle I islat lle R R' -> forall k, In k (map tkey (R r)) -> In k (map tkey (R' r)).
Proof.
  intros R R' r E H k Hk. apply in_map_iff in Hk. destruct Hk as [row [<- Hin]]. apply In_nth_error in Hin. destruct Hin as [i Hi].
  destruct (H r i row Hi) as [row' [E' L']]. unfold LatSem.tle in L'. rewrite E in L'. destruct L' as [-> _].
  apply in_map. eapply nth_error_In; eauto.
Qed.

(* run; push F (keys new w.r.t. every row present: input_ok of the extended rows); run  =  fresh run on Rin ++ F *)
Theorem lat_rerun_push : forall Rin F fuel st1 fuel2 fuel3 st2 st3,
  input_ok Rin -> run fuel pl Rin = Some st1 ->
  input_ok (appr (l_rows st1) F) ->
  run fuel2 pl (appr (l_rows st1) F) = Some st2 -> run fuel3 pl (appr Rin F) = Some st3 ->
  (forall r t, In t (l_rows st2 r) <-> In t (l_rows st3 r)) /\
  (forall r, islat r = true -> Permutation (l_rows st2 r) (l_rows st3 r)).
Proof.
  intros Rin F fuel st1 fuel2 fuel3 st2 st3 Hin H1 HR1' H2 H3.
  pose proof HR1' as [B1 [B2 B3]]. pose proof Hin as [A1 [A2 A3]].
  assert (HRall : input_ok (appr Rin F)).
  { split; [|split].
    - intros r row Hr n Hn. unfold appr in Hr. apply in_app_or in Hr. destruct Hr as [Hr|Hr]; [eapply A1; eauto|].
      apply (B1 r row); auto. unfold appr. apply in_or_app. right. exact Hr.
    - intros r E. unfold appr. rewrite map_app. specialize (B2 r E). unfold appr in B2. rewrite map_app in B2.
      apply NoDup_app_both; [apply A2; exact E | exact (NoDup_app_right _ _ _ B2)|].
      intros k Hk1 Hk2. apply (NoDup_app_disjoint _ _ _ k B2); [|exact Hk2].
      apply (rle_keys_incl Rin (l_rows st1) r E); [|exact Hk1].
      exact (lat_run_grows I Heq islat lle jm Hlaws shuffle Hshuf swap_oracle arities Hfun P Hnoagg Hmono pl Hval Hlatplan Rin Hin fuel st1 H1).
    - intros r row E Hr. unfold appr in Hr. apply in_app_or in Hr. destruct Hr as [Hr|Hr]; [apply (A3 r row E Hr)|].
      apply (B3 r row E). unfold appr. apply in_or_app. right. exact Hr. }
  apply (lat_rerun_incremental Rin fuel st1 (dbof F) (appr (l_rows st1) F) (appr Rin F) fuel2 fuel3 st2 st3); auto.
  - apply lub_push. exact B3.
  - apply lub_push. apply HRall.
Qed.

(* raising the value of row i of the lattice relation r in place by join_mut with v *)
Definition raise_at (r : rel) (i : nat) (v : V) (R : rel -> list (vtuple V)) : rel -> list (vtuple V) :=
  match nth_error (R r) i with
  | Some row => upd R r (set_nth i (tkey row ++ [fst (jm r (tval I row) v)]) (R r))
  | None => R
  end.

Lemma raise_input_ok : forall R r i v row, islat r = true -> lle r v v -> nth_error (R r) i = Some row ->
  (exists n, arity_ok arities r n = true) ->
  input_ok R -> input_ok (raise_at r i v R).
Proof.
  intros R r i v row E Hv Hi [n Hn] [A1 [A2 A3]]. unfold raise_at. rewrite Hi.
  pose proof (Hlaws r E) as L.
  assert (Hrow : In row (R r)) by (eapply nth_error_In; eauto).
  assert (Hpos : 0 < length row).
  { rewrite (A1 r row Hrow n Hn). exact (Hlat1 islat arities pl Hlatplan r n E Hn). }
  split; [|split].
  - intros q t Ht m Hm. destruct (Nat.eq_dec q r) as [->|Hne]; [rewrite upd_same in Ht | rewrite upd_other in Ht by auto; eapply A1; eauto].
    apply In_set_nth in Ht. destruct Ht as [->|Ht]; [|eapply A1; eauto].
    rewrite (len_row_upd I row _ Hpos). eapply A1; eauto.
  - intros q Eq. destruct (Nat.eq_dec q r) as [->|Hne]; [rewrite upd_same | rewrite upd_other by auto; apply A2; exact Eq].
    rewrite map_set_nth, tkey_app. rewrite set_nth_same; [apply A2; exact E|]. apply map_nth_error. exact Hi.
  - intros q t Eq Ht. destruct (Nat.eq_dec q r) as [->|Hne]; [rewrite upd_same in Ht | rewrite upd_other in Ht by auto; apply (A3 q t Eq Ht)].
    apply In_set_nth in Ht. destruct Ht as [->|Ht]; [|apply (A3 r t Eq Ht)].
    rewrite tval_app. pose proof (ll_ub_l _ _ L _ _ (A3 r row E Hrow) Hv) as Hu. apply (ll_dom _ _ L) in Hu. tauto.
Qed.

Lemma lub_raise : forall R r i v row, islat r = true -> lle r v v -> nth_error (R r) i = Some row ->
  (exists n, arity_ok arities r n = true) -> input_ok R ->
  lub_of (dbof R) (fun q t => q = r /\ t = tkey row ++ [v]) (dbof (raise_at r i v R)).
Proof.
  intros R r i v row E Hv Hi [n Hn] [A1 [A2 A3]]. pose proof (Hlaws r E) as L.
  assert (Hrow : In row (R r)) by (eapply nth_error_In; eauto).
  assert (Hpos : 0 < length row).
  { rewrite (A1 r row Hrow n Hn). exact (Hlat1 islat arities pl Hlatplan r n E Hn). }
  assert (Hrw : lle r (tval I row) (tval I row)) by (apply (A3 r row E Hrow)).
  set (row' := tkey row ++ [fst (jm r (tval I row) v)]).
  assert (Hnew : In row' (raise_at r i v R r)).
  { unfold raise_at. rewrite Hi, upd_same. eapply nth_error_In. apply nth_error_set_nth_eq. eapply nth_error_In_lt; eauto. }
  assert (Hlen' : length row' = length row) by (apply (len_row_upd I row _ Hpos)).
  split; [|split].
  - intros q t Ht. unfold dbof in Ht. apply In_nth_error in Ht. destruct Ht as [j Hj].
    destruct (Nat.eq_dec q r) as [->|Hne].
    + destruct (Nat.eq_dec j i) as [->|Hji].
      * assert (t = row) by congruence. subst t. exists row'. split; [exact Hnew|]. cbn [fst snd].
        unfold LatSem.tle. rewrite E. unfold row'. rewrite tkey_app, tval_app. split; [reflexivity|]. split; [symmetry; exact Hlen'|].
        apply (ll_ub_l _ _ L); auto.
      * exists t. split.
        -- unfold dbof, raise_at. rewrite Hi, upd_same. apply (nth_error_In _ j). rewrite nth_error_set_nth_neq by congruence. exact Hj.
        -- cbn [fst snd]. apply (tle_refl I islat lle). intros _. apply (A3 r t E). eapply nth_error_In; eauto.
    + exists t. split.
      * unfold dbof, raise_at. rewrite Hi, upd_other by auto. eapply nth_error_In; eauto.
      * cbn [fst snd]. apply (tle_refl I islat lle). intros Eq. apply (A3 q t Eq). eapply nth_error_In; eauto.
  - intros q t [-> ->]. exists row'. split; [exact Hnew|]. cbn [fst snd]. unfold LatSem.tle. rewrite E. unfold row'.
    rewrite !tkey_app, !tval_app. split; [reflexivity|]. split; [rewrite !app_length; reflexivity|]. apply (ll_ub_r _ _ L); auto.
  - intros J HJd HA HD q t Ht. unfold dbof, raise_at in Ht. rewrite Hi in Ht.
    destruct (Nat.eq_dec q r) as [->|Hne]; [rewrite upd_same in Ht | rewrite upd_other in Ht by auto; apply HA; exact Ht].
    apply In_set_nth in Ht. destruct Ht as [->|Ht]; [|apply HA; exact Ht].
    destruct (HA r row Hrow) as [t1 [J1 L1]]. destruct (HD r (tkey row ++ [v]) (conj eq_refl eq_refl)) as [t2 [J2 L2]]. cbn [fst snd] in *.
    pose proof L1 as L1'. pose proof L2 as L2'. unfold LatSem.tle in L1', L2'. rewrite E in L1', L2'.
    destruct L1' as [K1 [N1 O1]]. destruct L2' as [K2 [N2 O2]]. rewrite tkey_app in K2. rewrite tval_app in O2.
    assert (N2' : length row = length t2). { rewrite <- N2. rewrite (len_row_upd I row v Hpos). reflexivity. }
    destruct (HJd r t1 t2 E J1 J2) as [t3 [J3 [L13 L23]]]; [congruence | congruence|].
    exists t3. split; [exact J3|]. cbn [fst snd]. unfold LatSem.tle in *. rewrite E in *.
    destruct L13 as [K13 [N13 O13]]. destruct L23 as [K23 [N23 O23]].
    rewrite tkey_app, tval_app. split; [congruence|]. split; [rewrite (len_row_upd I row _ Hpos); congruence|].
    apply (ll_least _ _ L); eapply (ll_trans _ _ L); eauto.
Qed.

(* run; raise input row i of lattice relation r by v; run  =  fresh run on the input with row i raised by v *)
Theorem lat_rerun_raise : forall Rin r i v fuel st1 fuel2 fuel3 st2 st3,
  input_ok Rin -> run fuel pl Rin = Some st1 ->
  islat r = true -> lle r v v -> i < length (Rin r) -> (exists n, arity_ok arities r n = true) ->
  run fuel2 pl (raise_at r i v (l_rows st1)) = Some st2 -> run fuel3 pl (raise_at r i v Rin) = Some st3 ->
  (forall q t, In t (l_rows st2 q) <-> In t (l_rows st3 q)) /\
  (forall q, islat q = true -> Permutation (l_rows st2 q) (l_rows st3 q)).
Proof.
  intros Rin r i v fuel st1 fuel2 fuel3 st2 st3 Hin H1 E Hv Hi Har H2 H3.
  destruct (nth_error (Rin r) i) as [row|] eqn:Ei; [|apply nth_error_None in Ei; lia].
  pose proof (lat_run_grows I Heq islat lle jm Hlaws shuffle Hshuf swap_oracle arities Hfun P Hnoagg Hmono pl Hval Hlatplan Rin Hin fuel st1 H1) as Hg.
  destruct (Hg r i row Ei) as [row1 [Ei1 L1]]. unfold LatSem.tle in L1. rewrite E in L1. destruct L1 as [K1 _].
  pose proof (run_input_ok I Heq islat lle jm Hlaws shuffle Hshuf swap_oracle arities Hfun P Hnoagg Hmono pl Hval Hlatplan Rin fuel st1 Hin H1) as Hin1.
  apply (lat_rerun_incremental Rin fuel st1 (fun q t => q = r /\ t = tkey row ++ [v]) (raise_at r i v (l_rows st1)) (raise_at r i v Rin) fuel2 fuel3 st2 st3); auto.
  - eapply raise_input_ok; eauto.
  - rewrite K1. eapply lub_raise; eauto.
  - eapply raise_input_ok; eauto.
  - eapply lub_raise; eauto.
Qed.
End Rerun.
