(* C02, lattice half - RELATIONAL model of one run of the PARALLEL lattice engine (ascent_par! / ascent_run_par! on a
   program mixing relations and lattices).  Model only; the proofs are in LatParHead / LatParItems / LatParIter /
   LatParMain.v.  Companion of LatEval.v (the serial engine, an executable evaluator) and of Engine/ParStep.v (the
   parallel engine for plain relations).

   What is the same as in the serial engine (LatEval.v): rows per relation in insertion order, a row of a lattice
   relation mutable in its last column; the versions total / delta / new of the indices of a relation as sets of ROW
   NUMBERS; the SCC loop (evaluate; merge delta into total, new into delta; exit when __changed is false), the
   non-looping SCC, the SCCs in plan order, update_indices at the start of run().

   What is different (ascent_codegen.rs, `mir.is_parallel`): during one iteration of an SCC
   (a) total and delta are FROZEN; the rule variants are evaluated by any number of rayon workers (the first two
       clause loops of a variant are parallel iterators, with inter_rule_parallelism the variants are separate tasks);
   (b) a body clause on a lattice relation reads the row through `rows[i].read().unwrap().clone()`
       (clause_var_assignments): ONE atomic read of the row's current value, no lock is held afterwards;
   (c) every derived head fact of a lattice relation is processed by the parallel lattice head update, the protocol
       of atomic steps modelled and verified in Engine/ParLat.v / ParLatProofs.v (key index lookups in new / delta /
       total, join_mut under the row's write lock, key mutex + re-check before a push, re-insertion into new's
       indices, __changed); head updates of DIFFERENT workers and rule evaluation interleave arbitrarily, so a rule
       evaluation may observe any value a row takes during the iteration;
   (d) head facts of plain relations go through contains(total) / contains(delta) / insert_if_not_present(new)
       (Engine/ParStep.v, c02_iteration_schedule_independent); their new rows are not readable in this iteration.

   The model of ONE ITERATION ([par_lat_iteration]).  There are, for every dynamic lattice relation r of the SCC,
   one instance of the ParLat step machine (keys = the key columns, values = the lattice column) started from the
   rows at the start of the iteration with new empty and the flag false, a list [work r] of contributions per worker,
   and ONE global schedule: a list of (relation, worker) pairs, each letting that worker perform its next atomic step
   of the head update on that relation.  [work] is a prophecy of what the workers will derive; the two conditions
   below tie it to the rule evaluation:
   - [causal]: whenever a worker STARTS the head update of a contribution (the step that pops it from its todo
     list), that contribution is the head instance of a rule variant of the SCC under an environment all of whose
     clause matches are rows listed in the frozen index version the variant reads, each row read with a value it had
     AT SOME EARLIER MOMENT of the schedule ([seen]).  (The reads of a contribution precede its derivation, which
     precedes the start of its head update.)  Contributions to plain relations: the same, with reads anywhere in
     the schedule.  This is what makes the model well founded: a value can only be observed after contributions
     derived from earlier observations have been joined.  (A model that only bounds an observed value by the value
     at the END of the iteration is unsound: with the rule x(v) <-- x(v) a contribution justifies itself through its
     own join - LatParCausality.acausal_run_not_least.)
   - [exhaustive]: every variant that is not skipped by the any-relation-empty test has been evaluated completely
     ([covers]): for EVERY row number of the index version a clause reads, the row was read with some value it had
     during the iteration and, when it matched, the rest of the body was evaluated under the extended environment
     (in the written order, or with the two clauses of a reorderable simple join swapped); at the end of the body
     every head fact is among the contributions.
   The iteration ends when every worker has finished; the rows / new / __changed are read off the final states.
   For plain head relations the outcome is stated directly (what ParStep.run_sched_spec proves): the new rows are
   the contributions not present in total / delta, each once, in any order.
   Index lookups are abstracted to "all rows of the version that match" (vmatch_args), as in LatItems.satv; for
   validated plans that is what the index lookup + unchecked binding of the generated code computes
   (LatItems.clause_filter).  Nothing in this file mentions the lattice ORDER: the model is the code. *)
From Coq Require Import List ZArith Bool Arith.
From AV Require Import Engine.Core.
From AV Require Import Engine.Eval.
From AV Require Engine.ParLat.
From AV Require Import LatEngine.LatSyntax.
From AV Require Import LatEngine.LatEval.
Import ListNotations.

(* the two clauses of a simple join starting at item n, swapped *)
Fixpoint swap_at {A : Type} (n : nat) (l : list A) : list A :=
  match n, l with
  | O, a :: b :: rest => b :: a :: rest
  | S m, a :: rest => a :: swap_at m rest
  | _, _ => l
  end.

Definition is_nil {A : Type} (l : list A) : bool := match l with [] => true | _ => false end.

(* the contribution whose head update worker j of a ParLat state is about to start (the step PIdle -> PLook pops it) *)
Definition pops {K W : Type} (s : @ParLat.pstate K W) (j : nat) : option (K * W) :=
  match nth_error (ParLat.lws s) j with
  | Some w => match ParLat.wpc w, ParLat.todo w with ParLat.PIdle, kv :: _ => Some kv | _, _ => None end
  | None => None
  end.

Section LatPar.
Context {V : Type}.
Variable I : linterp V.
Variable islat : rel -> bool.
Variable jm : rel -> V -> V -> V * bool.

(* a lattice row as (key columns, lattice value) and back *)
Local Notation lkey := (list V).
Definition ofrow (t : vtuple V) : lkey * V := (tkey t, tval I t).
Definition torow (kv : lkey * V) : vtuple V := fst kv ++ [snd kv].
Definition lpstate := @ParLat.pstate lkey V.
Definition gstate := rel -> lpstate.

(* ---------- rule evaluation, relationally ---------- *)
Section Eval.
Variable dyn : list rel.
Variables St T D : rel -> list nat.
(* Obs r i t: row i of relation r was read with value t *)
Variable Obs : rel -> nat -> vtuple V -> Prop.

(* one path through the nested loops of a rule body: the environment at the head *)
Inductive sato : list pitem -> venv V -> venv V -> Prop :=
| sato_nil : forall e, sato [] e e
| sato_clause : forall r args cs idx ver rest e i t e1 e2 e3,
    In i (vrows dyn St T D r ver) -> Obs r i t ->
    vmatch_args I e args t = Some e1 -> vsat_conds I e1 cs = Some e2 -> sato rest e2 e3 ->
    sato (PClause r args cs idx ver :: rest) e e3
| sato_cond : forall c rest e e1 e2, vsat_cond I e c = Some e1 -> sato rest e1 e2 -> sato (PCond c :: rest) e e2
| sato_gen : forall x g xs rest e vs v e2,
    veval_vars e xs = Some vs -> In v (vgen I g vs) -> sato rest (vbind x v e) e2 -> sato (PGen x g xs :: rest) e e2.

(* the nested loops have been executed completely from environment e on; Leaf holds of every environment that
   reaches the end of the body *)
Inductive covers (Leaf : venv V -> Prop) : list pitem -> venv V -> Prop :=
| cov_nil : forall e, Leaf e -> covers Leaf [] e
| cov_clause : forall r args cs idx ver rest e,
    (forall i, In i (vrows dyn St T D r ver) ->
       exists t, Obs r i t /\
         forall e1 e2, vmatch_args I e args t = Some e1 -> vsat_conds I e1 cs = Some e2 -> covers Leaf rest e2) ->
    covers Leaf (PClause r args cs idx ver :: rest) e
| cov_cond : forall c rest e, (forall e1, vsat_cond I e c = Some e1 -> covers Leaf rest e1) -> covers Leaf (PCond c :: rest) e
| cov_gen : forall x g xs rest e,
    (forall vs v, veval_vars e xs = Some vs -> In v (vgen I g vs) -> covers Leaf rest (vbind x v e)) ->
    covers Leaf (PGen x g xs :: rest) e
| cov_agg : forall o a bd r args idx rest e, covers Leaf (PAgg o a bd r args idx :: rest) e.   (* outside this model, as in LatEval *)
End Eval.

(* the orders in which the items of a variant may be traversed (compile_mir_rule_inner: len_estimate comparison) *)
Definition order_of (v : variant) (items : list pitem) : Prop :=
  items = v_items v \/ (v_reord v = true /\ exists n, v_sj v = Some n /\ items = swap_at n (v_items v)).

(* ---------- one iteration of an SCC ---------- *)
Section Iter.
Variable sc : pscc.
Variables St T D : rel -> list nat.         (* frozen: stored indices of the body-only relations; total and delta of the dynamic ones *)
Variable R : rel -> list (vtuple V).        (* the rows at the start of the iteration *)

Definition latdyn (r : rel) : bool := islat r && is_dyn (s_dyn sc) r.

(* compile_mir_rule: the any-relation-empty test around a rule body (LatEval.eval_variant) *)
Definition skipped (v : variant) : bool :=
  let ncl := length (filter is_clause (v_items v)) in
  Nat.ltb 1 ncl && negb (match v_sj v with Some _ => Nat.eqb ncl 2 | None => false end)
  && existsb (clause_empty (s_dyn sc) St T D) (v_items v).

(* the frozen key index of a version of r: the row number of the version whose row has the key *)
Definition kidx (l : rel -> list nat) (r : rel) (k : lkey) : option nat := find_key I (R r) k (l r).

Section Run.
Variable mx : rel -> lkey -> nat.           (* hash(key) % number of key mutexes of r *)
Variable kfirst : rel -> bool.              (* order of the index insertions of r (sorted by ir name) *)
Variable work : rel -> list (list (lkey * V)).   (* per dynamic lattice relation and worker: its contributions, in order *)
Variable Cp : rel -> list (vtuple V).       (* per dynamic plain relation: the derived head facts *)

(* one atomic step of the lattice head update of relation r by worker j; new's other indices are set-backed *)
Definition lstep (r : rel) (s : lpstate) (j : nat) : lpstate :=
  ParLat.step (vlist_eqb I) (jm r) (mx r) (kfirst r) true (kidx D r) (kidx T r) s j.
Definition gstep (g : gstate) (rj : rel * nat) : gstate := upd g (fst rj) (lstep (fst rj) (g (fst rj)) (snd rj)).
Definition grun (g : gstate) (sched : list (rel * nat)) : gstate := fold_left gstep sched g.
Definition ginit : gstate := fun r => ParLat.par_init (map ofrow (R r)) [] [] false (work r).

(* the rows a rule evaluation can read in state g: frozen indices only list rows that existed at the start *)
Definition cur (g : gstate) (r : rel) : list (vtuple V) :=
  if latdyn r then map torow (ParLat.lrows (g r)) else R r.

(* row i of r had value t at some moment of the schedule *)
Definition seen (sched : list (rel * nat)) (r : rel) (i : nat) (t : vtuple V) : Prop :=
  exists p1 p2, sched = p1 ++ p2 /\ nth_error (cur (grun ginit p1) r) i = Some t.

(* f is a head instance of a variant of the SCC under observed reads *)
Definition derived (Obs : rel -> nat -> vtuple V -> Prop) (f : vfact V) : Prop :=
  exists v items e h, In v (s_vars sc) /\ order_of v items /\
    sato (s_dyn sc) St T D Obs items [] e /\ In h (v_heads v) /\ veval_head I e h = Some f.

Definition causal (sched : list (rel * nat)) : Prop :=
  (forall pre r j post kv, sched = pre ++ (r, j) :: post -> latdyn r = true ->
     pops (grun ginit pre r) j = Some kv -> derived (seen pre) (r, torow kv))
  /\ (forall r t, islat r = false -> In t (Cp r) -> derived (seen sched) (r, t)).

Definition contributed (f : vfact V) : Prop :=
  if islat (fst f) then In (ofrow (snd f)) (concat (work (fst f))) else In (snd f) (Cp (fst f)).

Definition exhaustive (sched : list (rel * nat)) : Prop :=
  forall v, In v (s_vars sc) -> skipped v = false ->
    exists items, order_of v items /\
      covers (s_dyn sc) St T D (seen sched)
             (fun e => forall h f, In h (v_heads v) -> veval_head I e h = Some f -> contributed f) items [].
End Run.

(* R', N', ch': the rows, the `new` version of the indices and __changed at the end of the iteration *)
Definition par_lat_iteration (R' : rel -> list (vtuple V)) (N' : rel -> list nat) (ch' : bool) : Prop :=
  exists mx kfirst work Cp sched (A : rel -> list (vtuple V)),
    let g := grun mx kfirst (ginit work) sched in
    causal mx kfirst work Cp sched /\ exhaustive mx kfirst work Cp sched
    /\ (forall r, latdyn r = true ->
          ParLat.finished (g r) = true /\ R' r = map torow (ParLat.lrows (g r)) /\ N' r = ParLat.lother (g r))
    /\ (forall r, islat r = false -> is_dyn (s_dyn sc) r = true ->
          R' r = R r ++ A r /\ NoDup (A r)
          /\ (forall t, In t (A r) <-> In t (Cp r) /\ mem_row I (R r) t (T r) || mem_row I (R r) t (D r) = false)
          /\ N' r = seq (length (R r)) (length (A r)))
    /\ (forall r, is_dyn (s_dyn sc) r = false -> R' r = R r /\ N' r = [])
    /\ ch' = existsb (fun r => if islat r then ParLat.lchg (g r) else negb (is_nil (A r))) (s_dyn sc).
End Iter.

(* ---------- the SCC loop, the SCCs in plan order (as LatEval.scc_loop / run_scc / run_sccs / run_plan) ---------- *)
Inductive par_lat_loop (sc : pscc) (St : rel -> list nat) :
  (rel -> list nat) -> (rel -> list nat) -> (rel -> list (vtuple V)) -> (rel -> list nat) -> (rel -> list (vtuple V)) -> Prop :=
| pll_exit : forall T D R R' N',
    par_lat_iteration sc St T D R R' N' false -> par_lat_loop sc St T D R (merge T D) R'
| pll_step : forall T D R R' N' Tf Rf,
    par_lat_iteration sc St T D R R' N' true -> par_lat_loop sc St (merge T D) N' R' Tf Rf -> par_lat_loop sc St T D R Tf Rf.

(* the iteration starts the loop can reach: (total, delta, rows) after 0, 1, 2, ... iterations *)
Inductive par_lat_loop_reach (sc : pscc) (St : rel -> list nat) :
  (rel -> list nat) -> (rel -> list nat) -> (rel -> list (vtuple V)) ->
  (rel -> list nat) -> (rel -> list nat) -> (rel -> list (vtuple V)) -> Prop :=
| pre_here : forall T D R, par_lat_loop_reach sc St T D R T D R
| pre_next : forall T D R R' N' ch' T2 D2 R2,
    par_lat_iteration sc St T D R R' N' ch' -> par_lat_loop_reach sc St (merge T D) N' R' T2 D2 R2 ->
    par_lat_loop_reach sc St T D R T2 D2 R2.

(* compile_mir_scc; the tick counter of lstate (argument of the serial model's iteration-order oracles) is not used *)
Definition par_lat_run_scc (sc : pscc) (st st' : @lstate V) : Prop :=
  let dyn := s_dyn sc in
  let D0 := fun r => if is_dyn dyn r then l_stored st r else [] in
  let T0 := fun _ : rel => @nil nat in
  let back := fun (Tf : rel -> list nat) r => if is_dyn dyn r then Tf r else l_stored st r in
  if s_loop sc then
    exists Tf Rf, par_lat_loop sc (l_stored st) T0 D0 (l_rows st) Tf Rf
                  /\ st' = {| l_rows := Rf; l_stored := back Tf; l_tick := l_tick st |}
  else
    exists R' N' b, par_lat_iteration sc (l_stored st) T0 D0 (l_rows st) R' N' b
                    /\ st' = {| l_rows := R'; l_stored := back (merge (merge T0 D0) N'); l_tick := l_tick st |}.

Inductive par_lat_run_sccs : plan -> @lstate V -> @lstate V -> Prop :=
| plr_nil : forall st, par_lat_run_sccs [] st st
| plr_cons : forall sc pl st st1 st2, par_lat_run_scc sc st st1 -> par_lat_run_sccs pl st1 st2 -> par_lat_run_sccs (sc :: pl) st st2.

Definition par_lat_run_plan (pl : plan) (Rin : rel -> list (vtuple V)) (st : @lstate V) : Prop :=
  par_lat_run_sccs pl (update_indices Rin) st.
End LatPar.
