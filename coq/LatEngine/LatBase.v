(* C03 - list / map utilities of the lattice engine proofs, the order on rows, the per-iteration invariant. *)
From Coq Require Import List ZArith Bool Arith Lia.
From AV Require Import Engine.Core.
From AV Require Import Engine.Eval.
From AV Require Import Engine.Validate.
From AV Require Import Engine.Naive.
From AV Require Import LatEngine.LatSyntax.
From AV Require Import LatEngine.LatEval.
From AV Require Import LatEngine.LatSem.
From AV Require Import LatEngine.LatClause.
From AV Require Import LatEngine.LatMono.
Import ListNotations.
Local Open Scope nat_scope.

(* ---------- upd / set_nth / nadd / nunion ---------- *)
Lemma upd_same : forall (A : Type) (f : rel -> A) r a, upd f r a r = a.
Proof. intros. unfold upd. rewrite Nat.eqb_refl. reflexivity. Qed.
Lemma upd_other : forall (A : Type) (f : rel -> A) r a q, q <> r -> upd f r a q = f q.
Proof. intros A f r a q H. unfold upd. destruct (Nat.eqb q r) eqn:E; auto. apply Nat.eqb_eq in E. contradiction. Qed.

Lemma set_nth_length : forall (A : Type) i (a : A) l, length (set_nth i a l) = length l.
Proof. intros A i a l. revert i. induction l as [|x l IH]; intros i; destruct i; cbn; auto. Qed.

Lemma nth_error_set_nth_eq : forall (A : Type) i (a : A) l, i < length l -> nth_error (set_nth i a l) i = Some a.
Proof.
  intros A i a l. revert i. induction l as [|x l IH]; intros i H; cbn in H; [lia|].
  destruct i; cbn; auto. apply IH. lia.
Qed.

Lemma nth_error_set_nth_neq : forall (A : Type) i j (a : A) l, i <> j -> nth_error (set_nth i a l) j = nth_error l j.
Proof.
  intros A i j a l. revert i j. induction l as [|x l IH]; intros i j H; destruct i, j; cbn; auto; try congruence.
Qed.

Lemma set_nth_same : forall (A : Type) i (a : A) l, nth_error l i = Some a -> set_nth i a l = l.
Proof.
  intros A i a l. revert i. induction l as [|x l IH]; intros i H; destruct i; cbn in *; auto; try discriminate.
  - congruence.
  - f_equal. auto.
Qed.

Lemma In_set_nth : forall (A : Type) i (a x : A) l, In x (set_nth i a l) -> x = a \/ In x l.
Proof.
  intros A i a x l. revert i. induction l as [|y l IH]; intros i H; destruct i; cbn in *; auto.
  - destruct H as [H|H]; auto.
  - destruct H as [H|H]; auto. destruct (IH _ H); auto.
Qed.

Lemma map_set_nth : forall (A B : Type) (f : A -> B) i a l, map f (set_nth i a l) = set_nth i (f a) (map f l).
Proof. intros A B f i a l. revert i. induction l as [|x l IH]; intros i; destruct i; cbn; auto. f_equal. auto. Qed.

Lemma nmem_In : forall i l, nmem i l = true <-> In i l.
Proof.
  intros i l. unfold nmem. rewrite existsb_exists. split.
  - intros [y [Hy He]]. apply Nat.eqb_eq in He. subst. exact Hy.
  - intros H. exists i. split; auto. apply Nat.eqb_refl.
Qed.

Lemma nadd_In : forall i j l, In j (nadd i l) <-> j = i \/ In j l.
Proof.
  intros i j l. unfold nadd. destruct (nmem i l) eqn:E.
  - apply nmem_In in E. split; auto. intros [->|H]; auto.
  - rewrite in_app_iff. cbn. split; intros H; [destruct H as [H|[H|[]]]|destruct H as [H|H]]; auto.
Qed.

Lemma nunion_In : forall l2 l1 j, In j (nunion l1 l2) <-> In j l1 \/ In j l2.
Proof.
  unfold nunion. induction l2 as [|i l2 IH]; intros l1 j; cbn.
  - tauto.
  - rewrite IH, nadd_In. split; intros H; intuition (subst; auto).
Qed.

Lemma nth_error_In_lt : forall (A : Type) (l : list A) i a, nth_error l i = Some a -> i < length l.
Proof. intros A l i a H. apply nth_error_Some. congruence. Qed.

Lemma nth_error_app_last : forall (A : Type) (l : list A) a, nth_error (l ++ [a]) (length l) = Some a.
Proof. intros. rewrite nth_error_app2 by lia. rewrite Nat.sub_diag. reflexivity. Qed.

Lemma find_none_all : forall (A : Type) (p : A -> bool) l, find p l = None -> forall x, In x l -> p x = false.
Proof. intros A p l H x Hx. exact (find_none p l H x Hx). Qed.

Lemma arity_ok_fun : forall arities r n m, arities_functional arities ->
  arity_ok arities r n = true -> arity_ok arities r m = true -> n = m.
Proof.
  intros arities r n m Hf H1 H2. unfold arity_ok in *. apply existsb_exists in H1. apply existsb_exists in H2.
  destruct H1 as [[r1 n1] [I1 E1]]. destruct H2 as [[r2 n2] [I2 E2]]. cbn in *.
  apply andb_true_iff in E1. apply andb_true_iff in E2. destruct E1 as [A1 B1]. destruct E2 as [A2 B2].
  apply Nat.eqb_eq in A1, B1, A2, B2. subst. eapply Hf; eauto.
Qed.

Section Order.
Context {V : Type}.
Variable I : linterp V.
Variable islat : rel -> bool.
Variable lle : rel -> V -> V -> Prop.
Variable jm : rel -> V -> V -> V * bool.
Hypothesis Hlaws : forall r, islat r = true -> lat_laws (lle r) (jm r).

Notation tle := (tle I islat lle).
Notation below := (below I islat lle).

Lemma tle_refl : forall r (t : vtuple V), (islat r = true -> lle r (tval I t) (tval I t)) -> tle r t t.
Proof. intros r t H. unfold LatSem.tle. destruct (islat r); auto. Qed.

Lemma tle_trans : forall r (a b c : vtuple V), tle r a b -> tle r b c -> tle r a c.
Proof.
  intros r a b c. unfold LatSem.tle. destruct (islat r) eqn:E.
  - intros [K1 [L1 O1]] [K2 [L2 O2]]. repeat split; try congruence. eapply (ll_trans _ _ (Hlaws r E)); eauto.
  - congruence.
Qed.

Lemma tle_wf_l : forall r (a b : vtuple V), islat r = true -> tle r a b -> lle r (tval I a) (tval I a).
Proof. intros r a b E. unfold LatSem.tle. rewrite E. intros [_ [_ H]]. apply (ll_dom _ _ (Hlaws r E)) in H. tauto. Qed.
Lemma tle_wf_r : forall r (a b : vtuple V), islat r = true -> tle r a b -> lle r (tval I b) (tval I b).
Proof. intros r a b E. unfold LatSem.tle. rewrite E. intros [_ [_ H]]. apply (ll_dom _ _ (Hlaws r E)) in H. tauto. Qed.

Lemma tle_len : forall r (a b : vtuple V), tle r a b -> length a = length b.
Proof. intros r a b. unfold LatSem.tle. destruct (islat r); [tauto|congruence]. Qed.

Lemma tle_plain : forall r (a b : vtuple V), islat r = false -> tle r a b -> a = b.
Proof. intros r a b E. unfold LatSem.tle. rewrite E. auto. Qed.

(* rows only grow: same row numbers, same keys, bigger values *)
Definition rle (R R' : rel -> list (vtuple V)) : Prop :=
  forall r i row, nth_error (R r) i = Some row -> exists row', nth_error (R' r) i = Some row' /\ tle r row row'.

Definition rows_wf (R : rel -> list (vtuple V)) : Prop :=
  forall r row, islat r = true -> In row (R r) -> lle r (tval I row) (tval I row).

Lemma rle_refl : forall R, rows_wf R -> rle R R.
Proof.
  intros R Hwf r i row H. exists row. split; auto. apply tle_refl. intros E. apply (Hwf r row E). eapply nth_error_In; eauto.
Qed.

Lemma rle_trans : forall R1 R2 R3, rle R1 R2 -> rle R2 R3 -> rle R1 R3.
Proof.
  intros R1 R2 R3 H1 H2 r i row H. destruct (H1 r i row H) as [row2 [E2 L2]]. destruct (H2 r i row2 E2) as [row3 [E3 L3]].
  exists row3. split; auto. eapply tle_trans; eauto.
Qed.

Lemma rle_length : forall R R' r, rle R R' -> length (R r) <= length (R' r).
Proof.
  intros R R' r H. destruct (R r) as [|x l] eqn:E; [cbn; lia|].
  assert (Hl : nth_error (R r) (length l) <> None).
  { apply nth_error_Some. rewrite E. cbn. lia. }
  destruct (nth_error (R r) (length l)) as [row|] eqn:En; [|congruence].
  destruct (H r _ row En) as [row' [E' _]]. apply nth_error_In_lt in E'. cbn. lia.
Qed.

Lemma below_rle : forall R R' f, rle R R' -> below (dbof R) f -> below (dbof R') f.
Proof.
  intros R R' [r t] H [t' [Hin Hle]]. cbn in *. unfold dbof in Hin. apply In_nth_error in Hin. destruct Hin as [i Hi].
  destruct (H r i t' Hi) as [row' [E' L']]. exists row'. split.
  - cbn. unfold dbof. eapply nth_error_In; eauto.
  - cbn. eapply tle_trans; eauto.
Qed.

Lemma below_trans : forall (J : db) r (t t' : vtuple V), tle r t t' -> below J (r, t') -> below J (r, t).
Proof. intros J r t t' H [t'' [Hin Hle]]. exists t''. split; auto. cbn in *. eapply tle_trans; eauto. Qed.

(* join facts *)
Lemma join_unchanged : forall r a b, islat r = true -> lle r a a -> lle r b b -> snd (jm r a b) = false -> fst (jm r a b) = a.
Proof.
  intros r a b E Ha Hb Hf. pose proof (Hlaws r E) as L.
  apply (ll_antisym _ _ L).
  - apply (ll_least _ _ L); auto. apply (ll_flag _ _ L); auto.
  - apply (ll_ub_l _ _ L); auto.
Qed.
End Order.
