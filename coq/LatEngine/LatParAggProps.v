(* C02 over lattices WITH aggregation / negation - the statements PROPOSED for coq/Props/C02.v (names c02_par_lat_agg_...),
   kept here, compiled, until they are moved there centrally: `Theorem .. Proof. exact lemma. Qed.` only.
   Props/C02.v needs these additional lines (it already has the LatPar* / LatSem / LatEval ones):
     From AV Require LatEngine.LatKeys.        From AV Require LatEngine.LatAggEval.     From AV Require LatEngine.LatAggTrans.
     From AV Require LatEngine.LatAggInv.      From AV Require LatEngine.LatAggSem.      From AV Require LatEngine.LatAggStrata.
     From AV Require LatEngine.LatAggMain.     From AV Require LatEngine.LatAggExample.  From AV Require LatEngine.LatParAggModel.
     From AV Require LatEngine.LatParAggSim.   From AV Require LatEngine.LatParAggEmbed. From AV Require LatEngine.LatParAggMain.
     From AV Require LatEngine.LatParAggExample.
   and the SCOPE comment of C02.v ("aggregates over parallel lattice relations ... are exercised through ascent_par! by the tie
   only") becomes: covered by c02_par_lat_agg_*. *)
From Coq Require Import List ZArith Bool Permutation.
From AV Require Import Engine.Core.
From AV Require Import Engine.Eval.
From AV Require Import Engine.Validate.
From AV Require Import Engine.Naive.
From AV Require Import Engine.InterfaceAgg.
From AV Require Import Engine.Strat.
From AV Require Import Engine.StratFixed.
From AV Require Import Engine.StrataAgg.
From AV Require Engine.ParLat.
From AV Require Engine.Vocab.
From AV Require LatEngine.LatSyntax.
From AV Require LatEngine.LatEval.
From AV Require LatEngine.LatSem.
From AV Require LatEngine.LatKeys.
From AV Require LatEngine.LatVocab.
From AV Require LatEngine.LatExample.
From AV Require LatEngine.LatAggEval.
From AV Require LatEngine.LatAggTrans.
From AV Require LatEngine.LatAggInv.
From AV Require LatEngine.LatAggSem.
From AV Require LatEngine.LatAggStrata.
From AV Require LatEngine.LatAggMain.
From AV Require LatEngine.LatAggExample.
From AV Require LatEngine.LatParModel.
From AV Require LatEngine.LatParExample.
From AV Require LatEngine.LatParAggModel.
From AV Require LatEngine.LatParAggSim.
From AV Require LatEngine.LatParAggEmbed.
From AV Require LatEngine.LatParAggMain.
From AV Require LatEngine.LatParAggExample.
Import ListNotations.

(* ---- lattice relations under ascent_par! WITH aggregation / negation: the WHOLE ENGINE.
   Model: LatEngine/LatParAggModel.v par_lat_agg_run_plan = LatParModel.par_lat_run_plan (SCCs in plan order, the SCC loop, per
   iteration any number of workers, the step machine of Engine/ParLat.v per dynamic lattice relation, ONE global schedule,
   rows[i].read().clone() observations subject to causality / exhaustiveness) where an item MirBodyItem::Agg is evaluated as the
   generated parallel code does: index_get on the TOTAL (frozen) version of the aggregated relation's index, the listed row
   numbers traversed in ANY order, each row read ONCE with a value it has had so far during the iteration (lattice rows are copied
   through rows[i].read().clone(), fix 91f3357; the index of a lattice relation is set-backed, d5edf35), the aggregator applied to
   the bound columns of the rows carrying the key, the body continued once per value.
   Hypotheses as in c04_lattice_stratified_model (the serial engine): plan accepted by the validator and the lattice index check,
   variables below N, monotone program whose aggregates have plain key expressions and a plain output variable, lattice laws
   (C16), permutation-invariant aggregators (the shipped ones: c04_lattice_shipped_aggregators), input with one row per key and
   no duplicate rows. *)

(* EVERY parallel run computes the STRATIFIED LATTICE MODEL (LatAggSem.strat_lat_model, the specification the serial engine is
   proved against in C04): the rules are grouped into strata respecting the dependencies; stratum after stratum R0 -> R1 the rows
   are the least fixed point (C03's notion: per-key directed, closed, above R0, below every such set) of the stratum's rules, an
   aggregate / negation ranging over the rows of R0 with the key - each row once, one row per key for a lattice relation;
   literally one row per key and no duplicate row at the end *)
Theorem c02_par_lat_agg_run_stratified_model : forall (V : Type) (I : LatSyntax.linterp V), LatSyntax.veqb_ok I ->
  forall vagg : nat -> list (list V) -> list V, (forall a l l', Permutation l l' -> vagg a l = vagg a l') ->
  forall (islat : rel -> bool) (lle : rel -> V -> V -> Prop) (jm : rel -> V -> V -> V * bool),
  (forall r, islat r = true -> LatSem.lat_laws (lle r) (jm r)) ->
  forall arities : list (rel * nat), arities_functional arities ->
  forall (P : list rule) (N : var), LatAggSem.amonotone_program I islat lle N P ->
  forall pl : plan, validate arities P pl = true -> LatAggEval.alat_plan_ok islat arities pl = true -> LatAggTrans.plan_below N pl = true ->
  forall (Rin : rel -> list (LatSyntax.vtuple V)) (st : LatEval.lstate), LatAggMain.ainput_ok I islat lle arities Rin ->
  LatParAggModel.par_lat_agg_run_plan I vagg islat jm pl Rin st ->
  stratified (plan_strata P pl) = true
  /\ (forall r, In r P <-> In r (concat (plan_strata P pl)))
  /\ LatAggSem.strat_lat_model I vagg islat lle (plan_strata P pl) Rin (LatEval.l_rows st)
  /\ LatKeys.keys_ok islat (LatEval.l_rows st) /\ LatAggInv.plain_nodup islat (LatEval.l_rows st).
Proof. exact @LatParAggMain.par_lat_agg_run_stratified_model. Qed.

(* ... hence the rows of the SERIAL engine with aggregates (LatAggEval.arun_plan, C04) on the same input, for every parallel run
   and every iteration-order / len_estimate oracle of the serial model: in EVERY relation the same rows, as a permutation (row
   numbers depend on the schedule, rows and their multiplicity do not) *)
Theorem c02_par_lat_agg_equals_serial : forall (V : Type) (I : LatSyntax.linterp V), LatSyntax.veqb_ok I ->
  forall vagg : nat -> list (list V) -> list V, (forall a l l', Permutation l l' -> vagg a l = vagg a l') ->
  forall (islat : rel -> bool) (lle : rel -> V -> V -> Prop) (jm : rel -> V -> V -> V * bool),
  (forall r, islat r = true -> LatSem.lat_laws (lle r) (jm r)) ->
  forall arities : list (rel * nat), arities_functional arities ->
  forall (P : list rule) (N : var), LatAggSem.amonotone_program I islat lle N P ->
  forall pl : plan, validate arities P pl = true -> LatAggEval.alat_plan_ok islat arities pl = true -> LatAggTrans.plan_below N pl = true ->
  forall (shuffle ashuffle : nat -> list nat -> list nat) (swap_oracle : nat -> list nat -> list nat -> bool) (fuel : nat)
         (Rin : rel -> list (LatSyntax.vtuple V)) (st_par st_ser : LatEval.lstate),
  (forall n l x, In x (shuffle n l) <-> In x l) -> (forall n l, Permutation (ashuffle n l) l) ->
  LatAggMain.ainput_ok I islat lle arities Rin ->
  LatParAggModel.par_lat_agg_run_plan I vagg islat jm pl Rin st_par ->
  LatAggEval.arun_plan I vagg islat jm shuffle ashuffle swap_oracle fuel pl Rin = Some st_ser ->
  (forall r t, In t (LatEval.l_rows st_par r) <-> In t (LatEval.l_rows st_ser r))
  /\ (forall r, Permutation (LatEval.l_rows st_par r) (LatEval.l_rows st_ser r)).
Proof. exact @LatParAggMain.par_lat_agg_equals_serial. Qed.

(* the specification itself is deterministic: two stratified lattice models over inputs that are permutations of each other are
   permutations of each other, relation by relation *)
Theorem c02_par_lat_agg_model_unique : forall (V : Type) (I : LatSyntax.linterp V), LatSyntax.veqb_ok I ->
  forall vagg : nat -> list (list V) -> list V, (forall a l l', Permutation l l' -> vagg a l = vagg a l') ->
  forall (islat : rel -> bool) (lle : rel -> V -> V -> Prop) (jm : rel -> V -> V -> V * bool),
  (forall r, islat r = true -> LatSem.lat_laws (lle r) (jm r)) ->
  forall (strata : list (list rule)) (R0 R0' R R' : rel -> list (LatSyntax.vtuple V)),
  (forall r, Permutation (R0 r) (R0' r)) -> LatAggInv.plain_nodup islat R0 -> LatAggInv.plain_nodup islat R0' ->
  LatAggSem.strat_lat_model I vagg islat lle strata R0 R -> LatAggSem.strat_lat_model I vagg islat lle strata R0' R' ->
  forall r, Permutation (R r) (R' r).
Proof. exact @LatParAggMain.strat_lat_model_unique. Qed.

(* the rows an aggregate of an SCC ranges over are the FINAL rows of the aggregated relation: neither the SCC of the aggregate nor
   a later one writes them, in any parallel run *)
Theorem c02_par_lat_agg_aggregated_final : forall (V : Type) (I : LatSyntax.linterp V), LatSyntax.veqb_ok I ->
  forall vagg : nat -> list (list V) -> list V, (forall a l l', Permutation l l' -> vagg a l = vagg a l') ->
  forall (islat : rel -> bool) (lle : rel -> V -> V -> Prop) (jm : rel -> V -> V -> V * bool),
  (forall r, islat r = true -> LatSem.lat_laws (lle r) (jm r)) ->
  forall arities : list (rel * nat), arities_functional arities ->
  forall (P : list rule) (N : var), LatAggSem.amonotone_program I islat lle N P ->
  forall pl : plan, validate arities P pl = true -> LatAggEval.alat_plan_ok islat arities pl = true -> LatAggTrans.plan_below N pl = true ->
  forall (pre : list pscc) (sc : pscc) (rest : list pscc) (st st' : LatEval.lstate),
  pl = pre ++ sc :: rest -> LatAggStrata.AG I islat lle arities st ->
  LatParAggModel.par_lat_agg_run_sccs I vagg islat jm (sc :: rest) st st' ->
  forall q, In q (stratum_agg_rels (stratum_of P sc)) -> LatEval.l_rows st' q = LatEval.l_rows st q.
Proof. exact @LatParAggMain.par_lat_agg_aggregated_final. Qed.

(* the REDUCTION behind the theorems, as a statement about the model: a parallel run of an SCC with aggregates IS - same workers,
   same contributions, same schedule, same final state - a parallel run of the aggregate-free translated SCC (every aggregate
   replaced by a generator) of LatParModel under the interpretation in which that generator yields the aggregate of the rows at
   SCC entry: while an SCC runs in parallel the aggregated relations are complete and frozen *)
Theorem c02_par_lat_agg_reduction : forall (V : Type) (I : LatSyntax.linterp V), LatSyntax.veqb_ok I ->
  forall vagg : nat -> list (list V) -> list V, (forall a l l', Permutation l l' -> vagg a l = vagg a l') ->
  forall (islat : rel -> bool) (jm : rel -> V -> V -> V * bool) (arities : list (rel * nat)) (P : list rule) (K : nat) (N : var),
  LatAggTrans.body_bound K P = true ->
  forall (sc : pscc) (st st' : LatEval.lstate),
  scc_ok arities P sc = true -> forallb (LatAggTrans.variant_below N) (s_vars sc) = true ->
  LatAggInv.stored_exact st -> LatAggInv.plain_nodup islat (LatEval.l_rows st) ->
  LatParAggModel.par_lat_agg_run_scc I vagg islat jm sc st st' ->
  LatParModel.par_lat_run_scc (LatAggTrans.tr_interp I vagg islat P K (LatEval.l_rows st)) islat jm (LatAggTrans.tr_scc K N sc) st st'.
Proof. exact @LatParAggSim.par_run_scc_tr. Qed.

(* the model with aggregates is a conservative extension of LatParModel.v: on an SCC without aggregate items the parallel runs of
   the two models are the same *)
Theorem c02_par_lat_agg_conservative : forall (V : Type) (I : LatSyntax.linterp V) (vagg : nat -> list (list V) -> list V)
  (islat : rel -> bool) (jm : rel -> V -> V -> V * bool) (sc : pscc), LatParAggEmbed.scc_noagg sc = true ->
  forall st st' : LatEval.lstate,
  LatParAggModel.par_lat_agg_run_scc I vagg islat jm sc st st' <-> LatParModel.par_lat_run_scc I islat jm sc st st'.
Proof. exact @LatParAggEmbed.par_agg_run_scc_noagg. Qed.

(* at EVERY iteration start a parallel run can reach (any number of completed SCCs, any number of parallel iterations of the next
   one): the state between the SCCs is well formed (arities, one row per key, no duplicate plain rows, EXACT stored indices - each
   row number once), the rows have one row per key, total / delta list every row of the dynamic relations, and the relations the
   SCC does not write (in particular the aggregated ones) still hold their rows at SCC entry *)
Theorem c02_par_lat_agg_at_every_iteration : forall (V : Type) (I : LatSyntax.linterp V), LatSyntax.veqb_ok I ->
  forall vagg : nat -> list (list V) -> list V, (forall a l l', Permutation l l' -> vagg a l = vagg a l') ->
  forall (islat : rel -> bool) (lle : rel -> V -> V -> Prop) (jm : rel -> V -> V -> V * bool),
  (forall r, islat r = true -> LatSem.lat_laws (lle r) (jm r)) ->
  forall arities : list (rel * nat), arities_functional arities ->
  forall (P : list rule) (N : var), LatAggSem.amonotone_program I islat lle N P ->
  forall pl : plan, validate arities P pl = true -> LatAggEval.alat_plan_ok islat arities pl = true -> LatAggTrans.plan_below N pl = true ->
  forall Rin : rel -> list (LatSyntax.vtuple V), LatAggMain.ainput_ok I islat lle arities Rin ->
  forall (pre : list pscc) (sc : pscc) (rest : list pscc) (st : LatEval.lstate) (T2 D2 : rel -> list nat) (R2 : rel -> list (LatSyntax.vtuple V)),
  pl = pre ++ sc :: rest ->
  LatParAggModel.par_lat_agg_run_sccs I vagg islat jm pre (LatEval.update_indices Rin) st ->
  LatParAggModel.par_lat_agg_loop_reach I vagg islat jm sc (LatEval.l_stored st) (fun _ => [])
    (fun r => if is_dyn (s_dyn sc) r then LatEval.l_stored st r else []) (LatEval.l_rows st) T2 D2 R2 ->
  LatAggStrata.AG I islat lle arities st
  /\ (forall r, islat r = true -> NoDup (map LatSyntax.tkey (R2 r)))
  /\ (forall r i, is_dyn (s_dyn sc) r = true -> (i < length (R2 r))%nat -> In i (T2 r) \/ In i (D2 r))
  /\ (forall q, is_dyn (s_dyn sc) q = false -> R2 q = LatEval.l_rows st q).
Proof. exact @LatParAggMain.par_lat_agg_intermediate. Qed.

(* no deadlock anywhere in a parallel run of a program with aggregates (carried over from c02_par_lat_no_deadlock): in every state
   of every iteration a run can reach - ANY contributions, ANY global schedule - a lattice relation whose head updates are not
   finished has a worker that can perform a step *)
Theorem c02_par_lat_agg_no_deadlock : forall (V : Type) (I : LatSyntax.linterp V), LatSyntax.veqb_ok I ->
  forall vagg : nat -> list (list V) -> list V, (forall a l l', Permutation l l' -> vagg a l = vagg a l') ->
  forall (islat : rel -> bool) (lle : rel -> V -> V -> Prop) (jm : rel -> V -> V -> V * bool),
  (forall r, islat r = true -> LatSem.lat_laws (lle r) (jm r)) ->
  forall arities : list (rel * nat), arities_functional arities ->
  forall (P : list rule) (N : var), LatAggSem.amonotone_program I islat lle N P ->
  forall pl : plan, validate arities P pl = true -> LatAggEval.alat_plan_ok islat arities pl = true -> LatAggTrans.plan_below N pl = true ->
  forall Rin : rel -> list (LatSyntax.vtuple V), LatAggMain.ainput_ok I islat lle arities Rin ->
  forall (pre : list pscc) (sc : pscc) (rest : list pscc) (st : LatEval.lstate) (T2 D2 : rel -> list nat) (R2 : rel -> list (LatSyntax.vtuple V))
         (mx : rel -> list V -> nat) (kfirst : rel -> bool) (work : rel -> list (list (list V * V))) (sched : list (rel * nat)) (r : rel),
  pl = pre ++ sc :: rest ->
  LatParAggModel.par_lat_agg_run_sccs I vagg islat jm pre (LatEval.update_indices Rin) st ->
  LatParAggModel.par_lat_agg_loop_reach I vagg islat jm sc (LatEval.l_stored st) (fun _ => [])
    (fun r0 => if is_dyn (s_dyn sc) r0 then LatEval.l_stored st r0 else []) (LatEval.l_rows st) T2 D2 R2 ->
  LatParModel.latdyn islat sc r = true ->
  let s := LatParModel.grun I jm T2 D2 R2 mx kfirst (LatParModel.ginit I R2 work) sched r in
  ParLat.finished s = false -> exists j, ParLat.enabled (mx r) s j = true.
Proof. exact @LatParAggMain.par_lat_agg_run_no_deadlock. Qed.

(* non-vacuity: d(y, v) <-- d(x, v), e(x, y) over Dual<u32> (the looping SCC of c02_par_lat_example_run, two workers, worker 1
   observing a value raised by worker 0) followed by m(x, n) <-- e(x, y), agg n = min(v) in d(x, v) in a later SCC (the aggregate
   binds the lattice column: the rows[i].read().clone() path): every hypothesis holds, there is a parallel run, it ends in
   d = {0 -> 3, 1 -> 3}, m = {(0,3), (1,3)}, the serial model computes the same rows (m in another order), and the theorems apply *)
Example c02_par_lat_agg_example_hypotheses :
  LatSyntax.veqb_ok LatVocab.lv_interp
  /\ (forall a l l', Permutation l l' -> Vocab.std_aint a l = Vocab.std_aint a l')
  /\ (forall r, LatExample.sp_islat r = true -> LatSem.lat_laws (LatExample.sp_lle r) (LatExample.sp_jm r))
  /\ arities_functional LatParAggExample.pax_arities
  /\ LatAggSem.amonotone_program LatVocab.lv_interp LatExample.sp_islat LatExample.sp_lle 4%nat LatParAggExample.pax_prog
  /\ validate LatParAggExample.pax_arities LatParAggExample.pax_prog LatParAggExample.pax_plan = true
  /\ LatAggEval.alat_plan_ok LatExample.sp_islat LatParAggExample.pax_arities LatParAggExample.pax_plan = true
  /\ LatAggTrans.plan_below 4%nat LatParAggExample.pax_plan = true
  /\ LatAggMain.ainput_ok LatVocab.lv_interp LatExample.sp_islat LatExample.sp_lle LatParAggExample.pax_arities LatParExample.px_input.
Proof.
  split; [exact LatExample.sp_eq|]. split; [exact LatAggExample.ag_agg_perm|]. split; [exact LatExample.sp_laws|].
  split; [exact LatParAggExample.pax_arities_functional|]. split; [exact LatParAggExample.pax_monotone|].
  destruct LatParAggExample.pax_checks as [A [B C]]. split; [exact A|]. split; [exact B|]. split; [exact C | exact LatParAggExample.pax_input_ok].
Qed.
Example c02_par_lat_agg_example_run : exists st,
  LatParAggModel.par_lat_agg_run_plan LatVocab.lv_interp Vocab.std_aint LatExample.sp_islat LatExample.sp_jm
    LatParAggExample.pax_plan LatParExample.px_input st
  /\ LatEval.l_rows st 1%nat = [[0; 3]; [1; 3]]%Z /\ LatEval.l_rows st 2%nat = [[0; 3]; [1; 3]]%Z
  /\ option_map (fun s => (LatEval.l_rows s 1%nat, LatEval.l_rows s 2%nat))
       (LatAggEval.arun_plan LatVocab.lv_interp Vocab.std_aint LatExample.sp_islat LatExample.sp_jm LatVocab.lv_shuffle LatVocab.lv_shuffle
          LatVocab.lv_swap 10 LatParAggExample.pax_plan LatParExample.px_input)
     = Some ([[0; 3]; [1; 3]], [[1; 3]; [0; 3]])%Z
  /\ LatAggSem.strat_lat_model LatVocab.lv_interp Vocab.std_aint LatExample.sp_islat LatExample.sp_lle
       (plan_strata LatParAggExample.pax_prog LatParAggExample.pax_plan) LatParExample.px_input (LatEval.l_rows st).
Proof.
  exists LatParAggExample.pax_final. split; [exact LatParAggExample.pax_parallel_run|].
  split; [exact (proj1 LatParAggExample.pax_result)|]. split; [exact (proj2 LatParAggExample.pax_result)|].
  split; [exact LatParAggExample.pax_serial | exact (proj1 LatParAggExample.pax_instance)].
Qed.

(* SCOPE / RESIDUE.  A run that ENDS (termination of the SCC loop is a property of the program); the outcome of the head update of a
   plain relation inside an iteration is part of the model (from c02_iteration_schedule_independent), as in LatParModel; index
   lookups are abstracted to "all listed rows that carry the key" (exact for plans passing alat_plan_ok: no index of a lattice
   relation on the lattice column).  The relational model is tied to the real ascent_par! binaries by sampling only
   (gen/c02_latagg.py: the lattice + aggregate family through ascent_par!, pools 1/3/8, with / without inter_rule_parallelism,
   perturbation seeds, compared with the SERIAL MODEL column - legitimate by c02_par_lat_agg_equals_serial - and with the python
   oracle); DashMap / RwLock / Mutex / rayon are assumed linearizable / correct (trusted base). *)

Print Assumptions c02_par_lat_agg_run_stratified_model. Print Assumptions c02_par_lat_agg_equals_serial.
Print Assumptions c02_par_lat_agg_model_unique. Print Assumptions c02_par_lat_agg_aggregated_final.
Print Assumptions c02_par_lat_agg_reduction. Print Assumptions c02_par_lat_agg_conservative.
Print Assumptions c02_par_lat_agg_at_every_iteration. Print Assumptions c02_par_lat_agg_no_deadlock.
Print Assumptions c02_par_lat_agg_example_hypotheses. Print Assumptions c02_par_lat_agg_example_run.
