(* C04 over lattices - the SIMULATION behind the reduction of aggregation to generators: running an SCC with
   aggregates (LatAggEval.arun_scc) equals running the translated, aggregate-free SCC (LatAggTrans.tr_scc)
   with the evaluator of LatEval.v under the interpretation tr_interp A, A = the rows at SCC entry.

   Inside one iteration the two runs carry the same state and environments that agree below N (the
   translation of a negation binds an unused variable N + p).  The state invariant is that every relation
   that is not dynamic in the SCC still holds its entry rows A; an aggregated relation is not dynamic
   (Validate.scc_ok), its stored index is a permutation of all its row numbers (stored_exact), and the
   aggregator is permutation invariant, so the values of an aggregate item are those of agg_result A. *)
From Coq Require Import List ZArith Bool Arith Lia Permutation.
From AV Require Import Engine.Core.
From AV Require Import Engine.Eval.
From AV Require Import Engine.Validate.
From AV Require Engine.EnvLemmas.
From AV Require Engine.AggLemmas.
From AV Require Engine.StrataAgg.
From AV Require Import LatEngine.LatSyntax.
From AV Require Import LatEngine.LatEval.
From AV Require Import LatEngine.LatEnv.
From AV Require Import LatEngine.LatClause.
From AV Require Import LatEngine.LatAggEval.
From AV Require Import LatEngine.LatAggTrans.
From AV Require Import LatEngine.LatAggKey.
From AV Require Import LatEngine.LatAggInv.
Import ListNotations.
Local Open Scope nat_scope.

(* ---------- lists ---------- *)
Section Lists.
Context {X Y : Type}.

Lemma filter_map_perm : forall (f : X -> option Y) l l', Permutation l l' -> Permutation (filter_map f l) (filter_map f l').
Proof.
  intros f l l' H. induction H as [|x l l' H IH|x y l|l l' l'' H1 IH1 H2 IH2]; cbn [filter_map].
  - constructor.
  - destruct (f x); [constructor|]; exact IH.
  - destruct (f y), (f x); try apply Permutation_refl. apply perm_swap.
  - eapply Permutation_trans; eassumption.
Qed.

Lemma map_nth_error_seq : forall (R : list X), map (nth_error R) (seq 0 (length R)) = map Some R.
Proof.
  induction R as [|a R IH]; [reflexivity|].
  cbn [length seq map nth_error]. f_equal. rewrite <- seq_shift, map_map. cbn [nth_error]. exact IH.
Qed.

Lemma skipn_cons_nth : forall p (l : list X) x l', skipn p l = x :: l' -> nth_error l p = Some x /\ skipn (S p) l = l'.
Proof.
  induction p as [|p IH]; intros [|y l] x l' H; cbn [skipn nth_error] in H |- *; try discriminate.
  - injection H as -> ->. split; reflexivity.
  - apply IH. exact H.
Qed.
End Lists.

(* ---------- the rows an aggregate reads ---------- *)
Section Rows.
Context {V : Type}.
Variable I : linterp V.
Hypothesis Heq : veqb_ok I.

Lemma vdedup_nodup : forall l, NoDup l -> vdedup I l = l.
Proof.
  induction l as [|t l IH]; intros H; [reflexivity|]. inversion H as [|x l0 Hn Hnd]; subst. cbn [vdedup].
  destruct (existsb (vlist_eqb I t) l) eqn:E.
  - apply existsb_exists in E. destruct E as [u [Hu He]]. apply (vlist_eqb_eq I Heq) in He. subst u. contradiction.
  - rewrite (IH Hnd). reflexivity.
Qed.

Lemma agg_matching_map : forall R idx key ids,
  agg_matching I R idx key ids
  = filter_map (fun o : option (vtuple V) => match o with
                         | Some row => if vlist_eqb I (vproj I idx row) key then Some row else None
                         | None => None end) (map (nth_error R) ids).
Proof.
  intros R idx key ids. unfold agg_matching. induction ids as [|i ids IH]; cbn [map filter_map]; [reflexivity|].
  rewrite IH. reflexivity.
Qed.

Lemma agg_matching_seq : forall R idx key,
  agg_matching I R idx key (seq 0 (length R)) = filter (fun row => vlist_eqb I (vproj I idx row) key) R.
Proof.
  intros R idx key. rewrite agg_matching_map, map_nth_error_seq.
  induction R as [|row R IH]; cbn [map filter_map filter]; [reflexivity|].
  destruct (vlist_eqb I (vproj I idx row) key); rewrite IH; reflexivity.
Qed.

Lemma agg_rows_perm : forall arity lat R idx key ids,
  Permutation ids (seq 0 (length R)) -> (lat = false -> NoDup R) ->
  Permutation (agg_rows I arity lat R idx key ids) (filter (fun row => vlist_eqb I (vproj I idx row) key) R).
Proof.
  intros arity lat R idx key ids Hp Hnd. unfold agg_rows.
  assert (Hm : Permutation (agg_matching I R idx key ids) (filter (fun row => vlist_eqb I (vproj I idx row) key) R)).
  { rewrite <- agg_matching_seq. unfold agg_matching. apply filter_map_perm. exact Hp. }
  destruct lat; cbn [negb andb]; [exact Hm|].
  destruct (Nat.eqb (length idx) arity); [|exact Hm].
  rewrite vdedup_nodup; [exact Hm|]. eapply Permutation_NoDup; [apply Permutation_sym; exact Hm|].
  apply NoDup_filter. apply Hnd. reflexivity.
Qed.

Lemma spec_rows_filter : forall islat (A : rel -> list (vtuple V)) r args key,
  (islat r = false -> NoDup (A r)) ->
  spec_rows I islat A r args key = filter (fun row => vlist_eqb I (vproj I (keypos args) row) key) (A r).
Proof.
  intros islat A r args key Hnd. unfold spec_rows. destruct (islat r); [reflexivity|].
  apply vdedup_nodup. apply NoDup_filter. apply Hnd. reflexivity.
Qed.
End Rows.

Section Sim.
Context {V : Type}.
Variable I : linterp V.
Hypothesis Heq : veqb_ok I.
Variable vagg : nat -> list (list V) -> list V.
Hypothesis Hperm : forall a l l', Permutation l l' -> vagg a l = vagg a l'.
Variable islat : rel -> bool.
Variable jm : rel -> V -> V -> V * bool.
Variable shuffle : nat -> list nat -> list nat.
Variable ashuffle : nat -> list nat -> list nat.
Hypothesis Hashuf : forall n l, Permutation (ashuffle n l) l.
Variable swap_oracle : nat -> list nat -> list nat -> bool.
Variable arities : list (rel * nat).
Variable P : list rule.
Variable K : nat.
Variable N : var.
Hypothesis HK : body_bound K P = true.

(* ---------- environments agreeing below N ---------- *)
Lemma akey_vars_below : forall args, forallb (aarg_below N) args = true -> vars_below N (akey_vars args) = true.
Proof.
  induction args as [|a args IH]; intros H; [reflexivity|]. cbn [forallb] in H. apply andb_true_iff in H as [Ha H].
  specialize (IH H). unfold akey_vars, akey_terms, vars_below in *. cbn [flat_map]. rewrite flat_map_app, forallb_app.
  apply andb_true_iff. split; [|exact IH].
  destruct a as [|x|t]; cbn [flat_map app forallb]; try reflexivity. rewrite app_nil_r. exact Ha.
Qed.

Lemma agree_key : forall (e e' : venv V) args idx, forallb (term_below N) args = true -> agree N e e' ->
  veval_key I e args idx = veval_key I e' args idx.
Proof.
  intros e e' args idx Hb H. induction idx as [|i idx IH]; cbn [veval_key]; [reflexivity|].
  destruct (nth_error args i) as [t|] eqn:Et; [|reflexivity]. rewrite IH. rewrite (agree_term I N e e' t); [reflexivity| |exact H].
  rewrite forallb_forall in Hb. apply Hb. eapply nth_error_In; eauto.
Qed.

Lemma agree_bind_new : forall args (row : vtuple V) (e e' : venv V), forallb (term_below N) args = true -> agree N e e' ->
  agree N (vbind_new e args row) (vbind_new e' args row).
Proof.
  induction args as [|a args IH]; intros row e e' Hb H; [destruct row; exact H|].
  cbn [forallb] in Hb. apply andb_true_iff in Hb as [Ha Hb]. destruct row as [|v row]; [destruct a; exact H|].
  destruct a as [x|c|f xs]; cbn [vbind_new]; try (apply IH; assumption).
  assert (Hx : x < N). { unfold term_below in Ha. cbn [term_vars] in Ha. eapply vars_below_In; [exact Ha|left; reflexivity]. }
  rewrite <- (H x Hx). destruct (vlookup e x); apply IH; auto. apply agree_bind. exact H.
Qed.

(* ---------- one iteration ---------- *)
Section Iter.
Variable dyn : list rel.
Variables St T D : rel -> list nat.
Variable A : rel -> list (vtuple V).
Hypothesis HSt : forall q, is_dyn dyn q = false -> Permutation (St q) (seq 0 (length (A q))).
Hypothesis HA : plain_nodup islat A.

Notation I' := (tr_interp I vagg islat P K A).

(* the relations that are not dynamic keep the rows A *)
Definition sinv (s : @istate V) : Prop := forall q, is_dyn dyn q = false -> i_rows s q = A q.

Definition krel (k k' : venv V -> @istate V -> @istate V) : Prop :=
  forall e1 e1' s1, agree N e1 e1' -> sinv s1 -> k e1 s1 = k' e1' s1 /\ sinv (k e1 s1).

Lemma sinv_tick : forall s, sinv s -> sinv (tick s).
Proof. intros s H. exact H. Qed.

Lemma fold_sim : forall (Z : Type) (f f' : @istate V -> Z -> @istate V) l s,
  (forall s x, In x l -> sinv s -> f s x = f' s x /\ sinv (f s x)) -> sinv s ->
  fold_left f l s = fold_left f' l s /\ sinv (fold_left f l s).
Proof.
  intros Z f f'. induction l as [|x l IH]; intros s Hf Hs; cbn [fold_left]; [auto|].
  destruct (Hf s x (or_introl eq_refl) Hs) as [E Hi]. rewrite <- E. apply IH; [|exact Hi].
  intros s1 y Hy H1. apply Hf; [right; exact Hy | exact H1].
Qed.

Lemma clause_sim : forall k k' e e' r args cs idx ver s, krel k k' -> agree N e e' -> sinv s ->
  forallb (term_below N) args = true -> forallb (cond_below N) cs = true ->
  eval_clause I shuffle dyn St T D k e r args cs idx ver s = eval_clause I shuffle dyn St T D k' e' r args cs idx ver s
  /\ sinv (eval_clause I shuffle dyn St T D k e r args cs idx ver s).
Proof.
  intros k k' e e' r args cs idx ver s Hk He Hs Ha Hc. unfold eval_clause. rewrite <- (agree_key e e' args idx Ha He).
  destruct (veval_key I e args idx) as [key|]; [|auto]. apply fold_sim; [|apply sinv_tick; exact Hs].
  intros s1 i _ H1. unfold clause_step. destruct (nth_error (i_rows s1 r) i) as [row|]; [|auto].
  destruct (vlist_eqb I (vproj I idx row) key); [|auto].
  pose proof (agree_conds I N cs _ _ Hc (agree_bind_new args row e e' Ha He)) as Ho.
  destruct (vsat_conds I (vbind_new e args row) cs) as [e2|], (vsat_conds I (vbind_new e' args row) cs) as [e2'|];
    cbn [orel] in Ho; try contradiction; auto.
Qed.

Lemma pos_lt : forall j ru p b, nth_error P j = Some ru -> nth_error (body ru) p = Some b -> p < K.
Proof.
  intros j ru p b Hj Hp. pose proof (body_bound_lt P K j ru HK Hj) as Hl.
  assert (p < length (body ru)) by (apply nth_error_Some; congruence). lia.
Qed.

Lemma gen_sim : forall j ru p x g xs F F' e e' s, nth_error P j = Some ru -> nth_error (body ru) p = Some (BGen x g xs) ->
  vars_below N xs = true -> krel F F' -> agree N e e' -> sinv s ->
  match veval_vars e xs with Some vs => fold_left (fun s v => F (vbind x v e) s) (vgen I g vs) s | None => s end
  = match veval_vars e' xs with
    | Some vs => fold_left (fun s v => F' (vbind x v e') s) (tr_vgen I vagg islat P K A (j * K + p) vs) s | None => s end
  /\ sinv (match veval_vars e xs with Some vs => fold_left (fun s v => F (vbind x v e) s) (vgen I g vs) s | None => s end).
Proof.
  intros j ru p x g xs F F' e e' s Hj Hp Hb HF He Hs. pose proof (pos_lt j ru p _ Hj Hp) as Hlt.
  rewrite <- (agree_vars N e e' xs Hb He). destruct (veval_vars e xs) as [vs|]; [|auto].
  rewrite (tr_vgen_gen I vagg islat P K A j p ru x g xs vs Hj Hp Hlt). apply fold_sim; [|exact Hs].
  intros s1 v _ H1. apply HF; [apply agree_bind; exact He | exact H1].
Qed.

Lemma agg_sim : forall j ru p out a bound r args F F' e e' s, nth_error P j = Some ru ->
  nth_error (body ru) p = Some (BAgg out a bound r args) ->
  forallb (aarg_below N) args = true -> is_dyn dyn r = false -> krel F F' -> agree N e e' -> sinv s ->
  match agg_values I vagg islat ashuffle dyn St T D e s a bound r args (keypos args) with
  | Some vals => fold_left (fun s v => F (vbind_out out v e) s) vals s | None => s end
  = match veval_vars e' (akey_vars args) with
    | Some vs => fold_left (fun s v => F' (vbind (outvar N p out) v e') s) (tr_vgen I vagg islat P K A (j * K + p) vs) s
    | None => s end
  /\ sinv (match agg_values I vagg islat ashuffle dyn St T D e s a bound r args (keypos args) with
           | Some vals => fold_left (fun s v => F (vbind_out out v e) s) vals s | None => s end).
Proof.
  intros j ru p out a bound r args F F' e e' s Hj Hp Hb Hd HF He Hs. pose proof (pos_lt j ru p _ Hj Hp) as Hlt.
  unfold agg_values. rewrite vagg_key_keypos. rewrite <- (agree_vars N e e' _ (akey_vars_below args Hb) He).
  destruct (veval_terms I e (akey_terms args)) as [key|] eqn:Ek.
  - destruct (proj1 (veval_terms_some_vars I e (akey_terms args)) (ex_intro _ key Ek)) as [ws Hws].
    change (flat_map term_vars (akey_terms args)) with (akey_vars args) in Hws. rewrite Hws.
    rewrite (tr_vgen_agg I vagg islat P K A j p ru out a bound r args ws Hj Hp Hlt). unfold agg_result.
    change (akey_vars args) with (flat_map term_vars (akey_terms args)).
    rewrite (vbinds_terms I (akey_terms args) ws e Hws), Ek.
    assert (Hv : vagg a (map (vagg_input bound args)
                          (agg_rows I (length args) (islat r) (i_rows s r) (keypos args) key
                             (ashuffle (i_tick s) (vrows dyn St T D r VTotal))))
                 = vagg a (map (vagg_input bound args) (spec_rows I islat A r args key))).
    { apply Hperm. apply Permutation_map. rewrite (spec_rows_filter I Heq islat A r args key (HA r)).
      rewrite (Hs r Hd). apply (agg_rows_perm I Heq).
      - unfold vrows. rewrite Hd. eapply Permutation_trans; [apply Hashuf | apply HSt; exact Hd].
      - apply HA. }
    rewrite Hv. apply fold_sim; [|exact Hs]. intros s1 v _ H1. apply HF; [|exact H1].
    destruct out as [x|]; cbn [vbind_out outvar]; [apply agree_bind; exact He | apply agree_bind_r; [lia | exact He]].
  - destruct (veval_vars e (akey_vars args)) as [ws|] eqn:Hws; [|auto]. exfalso.
    destruct (proj2 (veval_terms_some_vars I e (akey_terms args)) (ex_intro _ ws Hws)) as [key Hkey]. congruence.
Qed.

(* the items of a variant of rule ru, from body position p on *)
Fixpoint wfi (ru : rule) (p : nat) (items : list pitem) : Prop :=
  match items with
  | [] => True
  | it :: rest =>
      nth_error (body ru) p = Some (item_of it) /\ pitem_below N it = true
      /\ match it with PAgg _ _ _ r args idx => idx = keypos args /\ is_dyn dyn r = false | _ => True end
      /\ wfi ru (S p) rest
  end.

Lemma wfi_of : forall ru items p, skipn p (body ru) = map item_of items ->
  forallb (fun it => pitem_below N it && pitem_keypos it) items = true ->
  (forall q, In q (AggLemmas.agg_rels (body ru)) -> is_dyn dyn q = false) -> wfi ru p items.
Proof.
  intros ru. induction items as [|it rest IH]; intros p Hsk Hb Hag; cbn [wfi]; [trivial|].
  cbn [map] in Hsk. apply skipn_cons_nth in Hsk as [Hn Hsk]. cbn [forallb] in Hb. apply andb_true_iff in Hb as [Hit Hb].
  apply andb_true_iff in Hit as [Hbel Hkp]. split; [exact Hn|]. split; [exact Hbel|]. split; [|apply IH; auto].
  destruct it as [r args cs idx ver|c|x g xs|out a bound r args idx]; try trivial.
  cbn [pitem_keypos] in Hkp. apply EnvLemmas.nats_eqb_eq in Hkp. split; [symmetry; exact Hkp|].
  apply Hag. unfold AggLemmas.agg_rels. apply in_flat_map. exists (BAgg out a bound r args). cbn [item_of] in Hn.
  split; [eapply nth_error_In; exact Hn | left; reflexivity].
Qed.

Section Rule.
Variable j : nat.
Variable ru : rule.
Hypothesis Hj : nth_error P j = Some ru.

Lemma items_sim : forall items p k k' e e' s, wfi ru p items -> krel k k' -> agree N e e' -> sinv s ->
  aeval_items I vagg islat shuffle ashuffle dyn St T D items k e s
  = eval_items I' shuffle dyn St T D (tr_pitems K N j p items) k' e' s
  /\ sinv (aeval_items I vagg islat shuffle ashuffle dyn St T D items k e s).
Proof.
  induction items as [|it rest IH]; intros p k k' e e' s Hw Hk He Hs.
  - cbn [aeval_items tr_pitems eval_items]. apply Hk; auto.
  - cbn [wfi] in Hw. destruct Hw as [Hp [Hb [Hx Hw]]].
    assert (Hrest : krel (aeval_items I vagg islat shuffle ashuffle dyn St T D rest k)
                         (eval_items I' shuffle dyn St T D (tr_pitems K N j (S p) rest) k')).
    { intros e1 e1' s1 H1 H2. apply (IH (S p)); auto. }
    destruct it as [r args cs idx ver|c|x g xs|out a bound r args idx]; cbn [tr_pitems tr_pitem aeval_items eval_items].
    + cbn [pitem_below] in Hb. apply andb_true_iff in Hb as [Ha Hc].
      exact (clause_sim _ _ e e' r args cs idx ver s Hrest He Hs Ha Hc).
    + cbn [pitem_below] in Hb. pose proof (agree_cond I N e e' c Hb He) as Ho.
      change (vsat_cond I' e' c) with (vsat_cond I e' c).
      destruct (vsat_cond I e c) as [e2|], (vsat_cond I e' c) as [e2'|]; cbn [orel] in Ho; try contradiction; auto.
    + cbn [pitem_below] in Hb. apply andb_true_iff in Hb as [_ Hb]. cbn [item_of] in Hp.
      exact (gen_sim j ru p x g xs _ _ e e' s Hj Hp Hb Hrest He Hs).
    + cbn [pitem_below] in Hb. apply andb_true_iff in Hb as [_ Hb]. cbn [item_of] in Hp. destruct Hx as [-> Hd].
      exact (agg_sim j ru p out a bound r args _ _ e e' s Hj Hp Hb Hd Hrest He Hs).
Qed.

Lemma sj_sim : forall items p reord k k' e e' s, wfi ru p items -> krel k k' -> agree N e e' -> sinv s ->
  aeval_simple_join I vagg islat shuffle ashuffle swap_oracle dyn St T D items reord k e s
  = eval_simple_join I' shuffle swap_oracle dyn St T D (tr_pitems K N j p items) reord k' e' s
  /\ sinv (aeval_simple_join I vagg islat shuffle ashuffle swap_oracle dyn St T D items reord k e s).
Proof.
  intros items p reord k k' e e' s Hw Hk He Hs.
  destruct items as [|it1 items]; [exact (items_sim [] p k k' e e' s Hw Hk He Hs)|].
  destruct it1 as [r1 a1 c1 i1 v1|c|x g xs|out a bound r args idx];
    try exact (items_sim _ p k k' e e' s Hw Hk He Hs).
  destruct items as [|it2 rest]; [exact (items_sim _ p k k' e e' s Hw Hk He Hs)|].
  destruct it2 as [r2 a2 c2 i2 v2|c|x g xs|out a bound r args idx];
    try exact (items_sim _ p k k' e e' s Hw Hk He Hs).
  cbn [wfi] in Hw. destruct Hw as [_ [Hb1 [_ [_ [Hb2 [_ Hw]]]]]]. cbn [pitem_below] in Hb1, Hb2.
  apply andb_true_iff in Hb1 as [Ha1 Hc1]. apply andb_true_iff in Hb2 as [Ha2 Hc2].
  assert (Hrest : krel (aeval_items I vagg islat shuffle ashuffle dyn St T D rest k)
                       (eval_items I' shuffle dyn St T D (tr_pitems K N j (S (S p)) rest) k')).
  { intros e1 e1' s1 H1 H2. apply items_sim; auto. }
  cbn [tr_pitems tr_pitem aeval_simple_join eval_simple_join].
  destruct (reord && negb (swap_oracle (i_tick s) (vrows dyn St T D r1 v1) (vrows dyn St T D r2 v2))).
  - refine (clause_sim _ _ e e' r2 a2 c2 [] v2 s _ He Hs Ha2 Hc2).
    intros e1 e1' s1 H1 H2. exact (clause_sim _ _ e1 e1' r1 a1 c1 i1 v1 s1 Hrest H1 H2 Ha1 Hc1).
  - refine (clause_sim _ _ e e' r1 a1 c1 [] v1 s _ He Hs Ha1 Hc1).
    intros e1 e1' s1 H1 H2. exact (clause_sim _ _ e1 e1' r2 a2 c2 i2 v2 s1 Hrest H1 H2 Ha2 Hc2).
Qed.

Lemma from_sim : forall sj items p reord k k' e e' s, wfi ru p items -> krel k k' -> agree N e e' -> sinv s ->
  aeval_from I vagg islat shuffle ashuffle swap_oracle dyn St T D items sj reord k e s
  = eval_from I' shuffle swap_oracle dyn St T D (tr_pitems K N j p items) sj reord k' e' s
  /\ sinv (aeval_from I vagg islat shuffle ashuffle swap_oracle dyn St T D items sj reord k e s).
Proof.
  intros [n|].
  2:{ intros items p reord k k' e e' s Hw Hk He Hs. destruct items as [|it rest].
      - exact (items_sim [] p k k' e e' s Hw Hk He Hs).
      - exact (items_sim (it :: rest) p k k' e e' s Hw Hk He Hs). }
  induction n as [|n IH]; intros items p reord k k' e e' s Hw Hk He Hs.
  - destruct items as [|it rest].
    + exact (sj_sim [] p reord k k' e e' s Hw Hk He Hs).
    + exact (sj_sim (it :: rest) p reord k k' e e' s Hw Hk He Hs).
  - destruct items as [|it rest]; [cbn [aeval_from tr_pitems eval_from]; apply Hk; auto|].
    cbn [wfi] in Hw. destruct Hw as [Hp [Hb [Hx Hw]]].
    assert (Hrest : krel (aeval_from I vagg islat shuffle ashuffle swap_oracle dyn St T D rest (Some n) reord k)
                         (eval_from I' shuffle swap_oracle dyn St T D (tr_pitems K N j (S p) rest) (Some n) reord k')).
    { intros e1 e1' s1 H1 H2. apply (IH rest (S p)); auto. }
    destruct it as [r args cs idx ver|c|x g xs|out a bound r args idx]; cbn [tr_pitems tr_pitem aeval_from eval_from].
    + cbn [pitem_below] in Hb. apply andb_true_iff in Hb as [Ha Hc].
      exact (clause_sim _ _ e e' r args cs idx ver s Hrest He Hs Ha Hc).
    + cbn [pitem_below] in Hb. pose proof (agree_cond I N e e' c Hb He) as Ho.
      change (vsat_cond I' e' c) with (vsat_cond I e' c).
      destruct (vsat_cond I e c) as [e2|], (vsat_cond I e' c) as [e2'|]; cbn [orel] in Ho; try contradiction; auto.
    + cbn [pitem_below] in Hb. apply andb_true_iff in Hb as [_ Hb]. cbn [item_of] in Hp.
      exact (gen_sim j ru p x g xs _ _ e e' s Hj Hp Hb Hrest He Hs).
    + cbn [pitem_below] in Hb. apply andb_true_iff in Hb as [_ Hb]. cbn [item_of] in Hp. destruct Hx as [-> Hd].
      exact (agg_sim j ru p out a bound r args _ _ e e' s Hj Hp Hb Hd Hrest He Hs).
Qed.
End Rule.

(* ---------- heads ---------- *)
Lemma heads_sim : forall hs, (forall h, In h hs -> forallb (term_below N) (snd h) = true) ->
  (forall h, In h hs -> is_dyn dyn (fst h) = true) ->
  krel (heads_update I islat jm T D hs) (heads_update I' islat jm T D hs).
Proof.
  intros hs Hb Hd e1 e1' s1 He H1. unfold heads_update. apply fold_sim; [|exact H1].
  intros s h Hin Hs. change (veval_head I' e1' h) with (veval_head I e1' h).
  rewrite <- (agree_head I N e1 e1' h (Hb h Hin) He). destruct (veval_head I e1 h) as [f|] eqn:Ef; [|auto].
  split; [reflexivity|]. intros q Hq. rewrite head_rows_other; [apply Hs; exact Hq|].
  intros ->. unfold veval_head in Ef. destruct (veval_terms I e1 (snd h)) as [vs|]; [|discriminate].
  cbn [option_map] in Ef. injection Ef as <-. cbn [fst] in Hq. rewrite (Hd h Hin) in Hq. discriminate.
Qed.

Lemma tr_filter_clause : forall j items p, filter is_clause (tr_pitems K N j p items) = filter is_clause items.
Proof.
  intros j. induction items as [|it rest IH]; intros p; [reflexivity|]. cbn [tr_pitems filter].
  destruct it; cbn [tr_pitem is_clause]; rewrite IH; reflexivity.
Qed.

Lemma tr_clause_empty : forall j items p,
  existsb (clause_empty dyn St T D) (tr_pitems K N j p items) = existsb (clause_empty dyn St T D) items.
Proof.
  intros j. induction items as [|it rest IH]; intros p; [reflexivity|]. cbn [tr_pitems existsb].
  destruct it; cbn [tr_pitem clause_empty]; rewrite IH; reflexivity.
Qed.

Lemma variant_sim : forall v ru s, nth_error P (v_rule v) = Some ru -> wfi ru 0 (v_items v) ->
  (forall h, In h (v_heads v) -> forallb (term_below N) (snd h) = true) ->
  (forall h, In h (v_heads v) -> is_dyn dyn (fst h) = true) -> sinv s ->
  aeval_variant I vagg islat jm shuffle ashuffle swap_oracle dyn St T D s v
  = eval_variant I' islat jm shuffle swap_oracle dyn St T D s (tr_variant K N v)
  /\ sinv (aeval_variant I vagg islat jm shuffle ashuffle swap_oracle dyn St T D s v).
Proof.
  intros v ru s Hru Hw Hb Hd Hs. unfold aeval_variant, eval_variant.
  cbn [tr_variant v_items v_sj v_reord v_heads v_rule]. rewrite tr_filter_clause, tr_clause_empty.
  destruct (Nat.ltb 1 (length (filter is_clause (v_items v))) &&
            negb match v_sj v with Some _ => Nat.eqb (length (filter is_clause (v_items v))) 2 | None => false end &&
            existsb (clause_empty dyn St T D) (v_items v)); [auto|].
  apply (from_sim (v_rule v) ru Hru); [exact Hw | apply heads_sim; assumption | apply agree_refl | exact Hs].
Qed.
End Iter.

(* ---------- SCCs ---------- *)
Section Scc.
Variable sc : pscc.
Hypothesis Hok : scc_ok arities P sc = true.
Hypothesis Hbelow : forallb (variant_below N) (s_vars sc) = true.
Variable St : rel -> list nat.
Variable A : rel -> list (vtuple V).
Hypothesis HSt : forall q, is_dyn (s_dyn sc) q = false -> Permutation (St q) (seq 0 (length (A q))).
Hypothesis HA : plain_nodup islat A.

Notation I' := (tr_interp I vagg islat P K A).
Notation dyn := (s_dyn sc).

Lemma scc_variant_sim : forall T D v s, In v (s_vars sc) -> sinv dyn A s ->
  aeval_variant I vagg islat jm shuffle ashuffle swap_oracle dyn St T D s v
  = eval_variant I' islat jm shuffle swap_oracle dyn St T D s (tr_variant K N v)
  /\ sinv dyn A (aeval_variant I vagg islat jm shuffle ashuffle swap_oracle dyn St T D s v).
Proof.
  intros T D v s Hv Hs.
  pose proof (StrataAgg.scc_ok_variant_agg arities P sc Hok v Hv) as Hvo.
  destruct (StrataAgg.variant_ok_unpack_agg arities P sc v Hvo) as [ru [Hru [Hbody [Hheads _]]]].
  pose proof (StrataAgg.variant_rule_in_agg sc v Hv) as Hin.
  assert (Hvb : variant_below N v = true) by (rewrite forallb_forall in Hbelow; apply Hbelow; exact Hv).
  unfold variant_below in Hvb. apply andb_true_iff in Hvb as [Hits Hhds].
  apply (variant_sim dyn St T D A HSt HA v ru s Hru).
  - apply wfi_of; [cbn [skipn]; symmetry; exact Hbody | exact Hits |].
    intros q Hq. exact (StrataAgg.rule_aggs_static arities P sc Hok (v_rule v) ru q Hin Hru Hq).
  - intros h Hh. rewrite forallb_forall in Hhds. exact (Hhds h Hh).
  - intros h Hh. apply (StrataAgg.hr_dyn_agg arities P sc Hok). unfold scc_head_rels. apply in_flat_map.
    exists (v_rule v). split; [exact Hin|]. rewrite Hru. unfold head_rels. apply in_map. rewrite <- Hheads. exact Hh.
  - exact Hs.
Qed.

Lemma iteration_sim : forall T D R tk, (forall q, is_dyn dyn q = false -> R q = A q) ->
  ascc_iteration I vagg islat jm shuffle ashuffle swap_oracle dyn St T D sc R tk
  = scc_iteration I' islat jm shuffle swap_oracle dyn St T D (tr_scc K N sc) R tk
  /\ sinv dyn A (ascc_iteration I vagg islat jm shuffle ashuffle swap_oracle dyn St T D sc R tk).
Proof.
  intros T D R tk HR. unfold ascc_iteration, scc_iteration. cbn [tr_scc s_vars].
  assert (Hgen : forall vars s, incl vars (s_vars sc) -> sinv dyn A s ->
            fold_left (aeval_variant I vagg islat jm shuffle ashuffle swap_oracle dyn St T D) vars s
            = fold_left (eval_variant I' islat jm shuffle swap_oracle dyn St T D) (map (tr_variant K N) vars) s
            /\ sinv dyn A (fold_left (aeval_variant I vagg islat jm shuffle ashuffle swap_oracle dyn St T D) vars s)).
  { induction vars as [|v vars IH]; intros s Hincl Hs; cbn [map fold_left]; [auto|].
    destruct (scc_variant_sim T D v s (Hincl v (or_introl eq_refl)) Hs) as [E Hi]. rewrite <- E.
    apply IH; [intros x Hx; apply Hincl; right; exact Hx | exact Hi]. }
  apply Hgen; [apply incl_refl|]. intros q Hq. cbn [i_rows]. apply HR. exact Hq.
Qed.

Lemma loop_sim : forall fuel T D R tk, (forall q, is_dyn dyn q = false -> R q = A q) ->
  ascc_loop I vagg islat jm shuffle ashuffle swap_oracle fuel sc St T D R tk
  = scc_loop I' islat jm shuffle swap_oracle fuel (tr_scc K N sc) St T D R tk.
Proof.
  induction fuel as [|fuel IH]; intros T D R tk HR; [reflexivity|].
  cbn [ascc_loop scc_loop]. change (s_dyn (tr_scc K N sc)) with (s_dyn sc). cbv zeta.
  destruct (iteration_sim T D R tk HR) as [E Hi]. rewrite <- E.
  destruct (i_changed (ascc_iteration I vagg islat jm shuffle ashuffle swap_oracle dyn St T D sc R tk)); [|reflexivity].
  apply IH. exact Hi.
Qed.
End Scc.

Theorem arun_scc_tr : forall sc fuel (st : @lstate V),
  scc_ok arities P sc = true -> forallb (variant_below N) (s_vars sc) = true ->
  stored_exact st -> plain_nodup islat (l_rows st) ->
  arun_scc I vagg islat jm shuffle ashuffle swap_oracle fuel sc st
  = run_scc (tr_interp I vagg islat P K (l_rows st)) islat jm shuffle swap_oracle fuel (tr_scc K N sc) st.
Proof.
  intros sc fuel st Hok Hbelow Hst HP.
  assert (HSt : forall q, is_dyn (s_dyn sc) q = false -> Permutation (l_stored st q) (seq 0 (length (l_rows st q)))).
  { intros q _. destruct (Hst q) as [Hnd Hin]. apply NoDup_Permutation; [exact Hnd | apply seq_NoDup|].
    intros i. rewrite in_seq. rewrite Hin. lia. }
  unfold arun_scc, run_scc. cbv zeta.
  change (s_dyn (tr_scc K N sc)) with (s_dyn sc). change (s_loop (tr_scc K N sc)) with (s_loop sc).
  destruct (s_loop sc).
  - rewrite (loop_sim sc Hok Hbelow (l_stored st) (l_rows st) HSt HP fuel); [reflexivity|]. intros q _. reflexivity.
  - destruct (iteration_sim sc Hok Hbelow (l_stored st) (l_rows st) HSt HP (fun _ => [])
                (fun r => if is_dyn (s_dyn sc) r then l_stored st r else []) (l_rows st) (l_tick st)) as [E _];
      [intros q _; reflexivity|].
    rewrite <- E. reflexivity.
Qed.
End Sim.

Print Assumptions arun_scc_tr.
