(* B13 - statements proposed for Props/C03.v and Props/C04.v about the PER-INDEX lattice engine
   (LatEngine/LatIndexedEval.v xrun_plan: every physical index of a lattice relation - the key index key -> row number, the
   row-number indices key -> set of row numbers - has its own content in every version; head update, merges,
   update_indices and the index reads as the generated code performs them; tie gen/lat_indexed_tie.py compares the rows
   AND every `<rel>_indices_<cols>` field of every lattice relation of real compiled programs with the model's).

   ---- for Props/C04.v ----
   c04_lattice_indexed_refines           for a plan accepted by xplan_ok (decidable; evaluated on every dumped plan) and an
                                         input with one row per lattice key, a run of the per-index engine IS a run of the view
                                         engine LatAggEval.arun_plan under the same oracles: same rows, same tick, and every
                                         stored index over key columns lists exactly the row numbers whose key projection matches
   c04_lattice_indexed_stratified_model  c04_lattice_stratified_model for the per-index engine (same statement, xrun_plan in
                                         place of arun_plan, + xplan_ok + every lattice relation listed in arities)
   c04_lattice_value_index_stale_refuted the known finding lattice_value_column_index_stale on the faithful model: on the
                                         probe of gen/c04_known.py (plan dumped by the real front end) the per-index engine ends
                                         with d = {(1,5),(2,3)}, the index of d on its value column listing rows {0,1} under 3,
                                         and cnt(3) = 2: count() in d(_, 3) is NOT the number of final rows with value 3 (1)
   c04_lattice_value_index_known_class   the decidable known class: alat_plan_ok pl = false (a lattice relation read through an
                                         index containing its value column); the probe is in it, and xplan_ok excludes it
   c04_lattice_indexed_example           non-vacuity: the example of c04_lattice_example (a lattice raised over several
                                         iterations, a count and a negation over it) run by the per-index engine: xplan_ok
                                         holds, the engine terminates, the theorem applies
   NOT proved (gap): that NO stratified lattice model of the probe program has cnt(3) = 2 (LatAggSem.strat_lat_model is a
   relation; its uniqueness is not established anywhere in the development) - the refutation is stated against the
   explicit meaning of count over the final rows (count_spec) instead.

   ---- for Props/C03.v ----
   c03_indexed_least_fixed_point         c03_least_fixed_point + one row per key for the per-index engine (programs without
                                         aggregation; on such plans arun_plan = run_plan: LatIndexedMain.arun_noagg) *)
From Coq Require Import List ZArith Bool Permutation.
From AV Require Import Engine.Core Engine.Eval Engine.Validate Engine.Naive Engine.Vocab.
From AV Require Import Engine.Strat Engine.StratFixed Engine.InterfaceAgg.
From AV Require Import LatEngine.LatSyntax LatEngine.LatEval LatEngine.LatPlan LatEngine.LatSem LatEngine.LatBase LatEngine.LatKeys.
From AV Require Import LatEngine.LatMain LatEngine.LatVocab LatEngine.LatExample.
From AV Require Import LatEngine.LatAggEval LatEngine.LatAggTrans LatEngine.LatAggInv LatEngine.LatAggSem LatEngine.LatAggMain.
From AV Require Import LatEngine.LatAggExample.
From AV Require Import LatEngine.LatIndexedEval LatEngine.LatIndexedStore LatEngine.LatIndexedMain LatEngine.LatIndexedFinding.
Import ListNotations.

Theorem c04_lattice_indexed_refines : forall (V : Type) (I : linterp V), veqb_ok I ->
  forall (vagg : nat -> list (list V) -> list V) (islat : rel -> bool) (jm : rel -> V -> V -> V * bool)
         (shuffle : nat -> list nat -> list nat), (forall n l x, In x (shuffle n l) -> In x l) ->
  forall ashuffle : nat -> list nat -> list nat, (forall n l x, In x (ashuffle n l) -> In x l) ->
  forall (swap_oracle : nat -> list nat -> list nat -> bool) (arities : list (rel * nat)) (ds : list xdecl) (pl : plan),
  xplan_ok islat arities ds pl = true -> (forall r, islat r = true -> In r (map fst arities)) ->
  forall (fuel : nat) (Rin : rel -> list (vtuple V)) (xst : xlstate),
  rows_len islat arities Rin -> keys_ok islat Rin ->
  xrun_plan I vagg islat jm shuffle ashuffle swap_oracle (decls_of ds) fuel pl Rin = Some xst ->
  exists st, arun_plan I vagg islat jm shuffle ashuffle swap_oracle fuel pl Rin = Some st
             /\ l_rows st = l_rows (xl_s xst) /\ l_tick st = l_tick (xl_s xst)
             /\ (forall r, islat r = true -> stinv I arities ds (l_rows st) r (xl_ix xst r) (l_stored st r)).
Proof. exact @lat_indexed_refines. Qed.

Theorem c04_lattice_indexed_stratified_model : forall (V : Type) (I : linterp V), veqb_ok I ->
  forall vagg : nat -> list (list V) -> list V, (forall a l l', Permutation l l' -> vagg a l = vagg a l') ->
  forall (islat : rel -> bool) (lle : rel -> V -> V -> Prop) (jm : rel -> V -> V -> V * bool),
  (forall r, islat r = true -> lat_laws (lle r) (jm r)) ->
  forall shuffle : nat -> list nat -> list nat, (forall n l x, In x (shuffle n l) <-> In x l) ->
  forall ashuffle : nat -> list nat -> list nat, (forall n l, Permutation (ashuffle n l) l) ->
  forall (swap_oracle : nat -> list nat -> list nat -> bool) (arities : list (rel * nat)), arities_functional arities ->
  forall (P : list rule) (N : var), amonotone_program I islat lle N P ->
  forall pl : plan, validate arities P pl = true -> alat_plan_ok islat arities pl = true -> plan_below N pl = true ->
  forall ds : list xdecl, xplan_ok islat arities ds pl = true -> (forall r, islat r = true -> In r (map fst arities)) ->
  forall (fuel : nat) (Rin : rel -> list (vtuple V)) (xst : xlstate), ainput_ok I islat lle arities Rin ->
  xrun_plan I vagg islat jm shuffle ashuffle swap_oracle (decls_of ds) fuel pl Rin = Some xst ->
  stratified (plan_strata P pl) = true
  /\ (forall r, In r P <-> In r (concat (plan_strata P pl)))
  /\ strat_lat_model I vagg islat lle (plan_strata P pl) Rin (l_rows (xl_s xst))
  /\ keys_ok islat (l_rows (xl_s xst)) /\ plain_nodup islat (l_rows (xl_s xst)).
Proof. exact @lat_indexed_agg_stratified_model. Qed.

Theorem c04_lattice_value_index_stale_refuted : exists st,
  pr_run = Some st
  /\ l_rows (xl_s st) 1%nat = [[1; 5]; [2; 3]]%Z
  /\ l_rows (xl_s st) 3%nat = [[3; 2]; [5; 1]; [7; 0]]%Z
  /\ l_rows (xl_s st) 4%nat = [[7]]%Z
  /\ xents (xl_ix st 1%nat) [1%nat] = [([3], [0%nat; 1%nat]); ([5], [0%nat])]%Z
  /\ ~ count_spec (l_rows (xl_s st) 1%nat) (l_rows (xl_s st) 3%nat).
Proof. exact lat_value_index_stale_refuted. Qed.

Theorem c04_lattice_value_index_known_class :
  alat_plan_ok pr_islat pr_arities pr_plan = false
  /\ xplan_ok pr_islat pr_arities pr_decls pr_plan = false
  /\ validate pr_arities pr_prog pr_plan = true
  /\ (forall islat arities ds pl, arities_functional arities -> alat_plan_ok islat arities pl = false -> xplan_ok islat arities ds pl = false).
Proof. exact lat_value_index_known_class. Qed.

(* non-vacuity *)
Definition ag_decls : list xdecl :=
  [(1%nat, [0%nat; 1%nat], true); (1%nat, [0%nat], false); (1%nat, [1%nat], false); (1%nat, [], false); (1%nat, [0%nat; 1%nat; 2%nat], false)].

Lemma ag_dom : forall r, sp_islat r = true -> In r (map fst ag_arities).
Proof. intros [|[|r]] H; cbn in *; try discriminate; auto. Qed.

Example c04_lattice_indexed_example : exists xst,
  xplan_ok sp_islat ag_arities ag_decls ag_plan = true
  /\ xrun_plan lv_interp std_aint sp_islat sp_jm lv_shuffle lv_shuffle lv_swap (decls_of ag_decls) 40 ag_plan ag_input = Some xst
  /\ l_rows (xl_s xst) 3%nat = [[2; 1]; [0; 3]; [1; 2]]%Z
  /\ strat_lat_model lv_interp std_aint sp_islat sp_lle (plan_strata ag_prog ag_plan) ag_input (l_rows (xl_s xst))
  /\ keys_ok sp_islat (l_rows (xl_s xst)).
Proof.
  assert (Hok : xplan_ok sp_islat ag_arities ag_decls ag_plan = true) by (vm_compute; reflexivity).
  destruct (xrun_plan lv_interp std_aint sp_islat sp_jm lv_shuffle lv_shuffle lv_swap (decls_of ag_decls) 40 ag_plan ag_input) as [xst|] eqn:Erun;
    [|vm_compute in Erun; discriminate].
  exists xst. split; [exact Hok|]. split; [reflexivity|].
  assert (H3 : l_rows (xl_s xst) 3%nat = [[2; 1]; [0; 3]; [1; 2]]%Z) by (vm_compute in Erun; injection Erun as <-; reflexivity).
  split; [exact H3|]. destruct ag_checks as [Hval [Halat Hbelow]].
  destruct (lat_indexed_agg_stratified_model Z lv_interp sp_eq std_aint ag_agg_perm sp_islat sp_lle sp_jm sp_laws lv_shuffle sp_shuffle_ok
              lv_shuffle ag_ashuffle_ok lv_swap ag_arities ag_arities_functional ag_prog 5%nat ag_monotone ag_plan Hval Halat Hbelow
              ag_decls Hok ag_dom 40%nat ag_input xst ag_input_ok Erun) as [_ [_ [Hmodel [Hkeys _]]]].
  split; [exact Hmodel | exact Hkeys].
Qed.

Theorem c03_indexed_least_fixed_point : forall (V : Type) (I : linterp V) islat lle jm shuffle swap_oracle arities P pl Rin fuel,
  veqb_ok I -> (forall r, islat r = true -> lat_laws (lle r) (jm r)) ->
  (forall n l x, In x (shuffle n l) <-> In x l) ->
  arities_functional arities -> no_agg P = true -> monotone_program I islat lle P ->
  validate arities P pl = true -> lat_plan_ok islat arities pl = true ->
  LatMain.input_ok I islat lle arities Rin ->
  forall (vagg : nat -> list (list V) -> list V) (ashuffle : nat -> list nat -> list nat), (forall n l x, In x (ashuffle n l) -> In x l) ->
  forall ds : list xdecl, xplan_ok islat arities ds pl = true -> (forall r, islat r = true -> In r (map fst arities)) ->
  forall xst : xlstate,
  xrun_plan I vagg islat jm shuffle ashuffle swap_oracle (decls_of ds) fuel pl Rin = Some xst ->
  let F := dbof (l_rows (xl_s xst)) in
  (directed I islat lle F /\ closedH I islat lle P F /\ dble I islat lle (dbof Rin) F /\
   forall J : db, directed I islat lle J -> closedH I islat lle P J -> dble I islat lle (dbof Rin) J -> dble I islat lle F J)
  /\ forall r, islat r = true -> NoDup (map tkey (l_rows (xl_s xst) r)).
Proof. exact @lat_indexed_run_least_fixed_point. Qed.

Print Assumptions c04_lattice_indexed_refines.
Print Assumptions c04_lattice_indexed_stratified_model.
Print Assumptions c04_lattice_value_index_stale_refuted.
Print Assumptions c04_lattice_value_index_known_class.
Print Assumptions c04_lattice_indexed_example.
Print Assumptions c03_indexed_least_fixed_point.
