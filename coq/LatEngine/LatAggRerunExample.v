(* C13 over lattices with aggregation - non-vacuity of LatAggRerun.lat_agg_rerun_idempotent: the program of
   LatAggExample.v (shortest paths over Dual - a lattice raised over several iterations -, a count and a negation over
   it, plan shape of the macro).  Every hypothesis holds, both runs of the model terminate, the second run returns the
   rows of the first (computed on the rows of the first run stored as a table - LatAggRerunScript.afreeze, extensionally
   the same function: vm_compute re-evaluates the closure `l_rows st1` at every lookup otherwise), and the theorem applies
   to the first run for every fuel of the second. *)
From Coq Require Import List ZArith Bool Arith Permutation.
From AV Require Import Engine.Core.
From AV Require Import Engine.Eval.
From AV Require Import Engine.Validate.
From AV Require Import Engine.Vocab.
From AV Require Import LatEngine.LatSyntax.
From AV Require Import LatEngine.LatEval.
From AV Require Import LatEngine.LatVocab.
From AV Require Import LatEngine.LatExample.
From AV Require Import LatEngine.LatAggEval.
From AV Require Import LatEngine.LatAggTrans.
From AV Require Import LatEngine.LatAggMain.
From AV Require Import LatEngine.LatAggExample.
From AV Require Import LatEngine.LatAggRerun.
Import ListNotations.
Open Scope Z_scope.

From AV Require Import LatEngine.LatAggRerunScript.
Definition ag_run := arun_plan lv_interp std_aint sp_islat sp_jm lv_shuffle lv_shuffle lv_swap 40 ag_plan.
Definition ag_rels : list rel := [0; 1; 2; 3; 4]%nat.
Definition ag_obs (R : rel -> list (list Z)) : list (list (list Z)) := map R ag_rels.
(* both runs terminate; all five relations are the identical lists after the second run; edge 4 rows, sp 6, near 6, deg 3, nosp 3 *)
Example ag_rerun_runs :
  match ag_run ag_input with
  | Some st1 => option_map (fun st2 => ag_obs (l_rows st2)) (ag_run (afreeze ag_rels (l_rows st1))) = Some (ag_obs (l_rows st1))
                /\ map (@length _) (ag_obs (l_rows st1)) = [4; 6; 6; 3; 3]%nat
  | None => False
  end.
Proof. vm_compute. split; reflexivity. Qed.
Theorem ag_rerun_instance : exists st1,
  ag_run ag_input = Some st1 /\ forall fuel' st2, arun_plan lv_interp std_aint sp_islat sp_jm lv_shuffle lv_shuffle lv_swap fuel' ag_plan (l_rows st1) = Some st2 -> forall r, Permutation (l_rows st2 r) (l_rows st1 r).
Proof.
  destruct ag_instance as [st1 [E1 _]]. exists st1. split; [exact E1|]. intros fuel' st2 E2.
  destruct ag_checks as [Hval [Halat Hbelow]].
  exact (lat_agg_rerun_idempotent lv_interp sp_eq std_aint ag_agg_perm sp_islat sp_lle sp_jm sp_laws lv_shuffle sp_shuffle_ok
           lv_shuffle ag_ashuffle_ok lv_swap ag_arities ag_arities_functional ag_prog 5%nat ag_monotone ag_plan Hval Halat Hbelow
           40%nat fuel' ag_input st1 st2 ag_input_ok E1 E2).
Qed.
Print Assumptions ag_rerun_instance.
