(* C14, lattice half - run_timeout of the lattice engine.

   MODEL (ascent_codegen.rs, `#![generate_run_timeout]`): run_timeout is run() with the macro
   __check_return_conditions!() expanded to `if timeout < MAX && start.elapsed() >= timeout { return false; }`.
   The macro sits (compile_mir_scc)
     - in a looping SCC at the END of the loop body, after the rules were evaluated, delta was merged into total and
       new became delta, and AFTER `if !changed { break; }`: the deadline is read only after an iteration that
       changed something;
     - in a non-looping SCC after the single evaluation and the two merges.
   `return false` leaves the function at once: the local total / delta / new indices of the SCC are dropped (the
   index fields of the program value were moved out by mem::take and are NOT stored back); the rows - including
   lattice values raised in place - stay.  The next run() / run_timeout() starts with update_indices, which rebuilds
   every index from the rows: the program value left by an interrupted call IS its rows.  run() itself is
   run_timeout(Duration::MAX), for which the check is statically false.
   The clock is an arbitrary oracle: [deadline k] says whether the k-th reading (k = 0, 1, ...) of one call finds the
   timeout expired; "at whatever point the deadline struck" is the universal quantifier over [deadline].

   THEOREMS (for every clock, every order of iteration, every len_estimate comparison):
   lat_timeout_state        whatever run_timeout returns, the rows left are a legal input (declared arities, lattice
                            elements, ONE ROW PER KEY), the input rows are still in place with values that only went
                            up, plain relations were only appended to by new rows, and every row is below EVERY
                            directed closed set above the input (generalises c03_sound_at_every_iteration);
   lat_timeout_below_final  ... in particular every lattice value is below the final one of an uninterrupted run;
   lat_timeout_true         `true` = an uninterrupted run: the least fixed point;
   lat_timeout_resume_run   after ANY number of interrupted calls, run() completes to exactly the least fixed point
                            of the ORIGINAL input - the same rows as a single uninterrupted run();
   lat_timeout_resume_true  ... and so does a later run_timeout that returns true;
   lat_timeout_never        a clock that never fires makes run_timeout coincide with run(). *)
From Coq Require Import List ZArith Bool Arith Lia Permutation.
From AV Require Import Engine.Core.
From AV Require Import Engine.Eval.
From AV Require Import Engine.Validate.
From AV Require Import Engine.Naive.
From AV Require Engine.SemiNaive.
From AV Require Import LatEngine.LatSyntax.
From AV Require Import LatEngine.LatEval.
From AV Require Import LatEngine.LatPlan.
From AV Require Import LatEngine.LatSem.
From AV Require Import LatEngine.LatMono.
From AV Require Import LatEngine.LatBase.
From AV Require Import LatEngine.LatHead.
From AV Require Import LatEngine.LatScc.
From AV Require Import LatEngine.LatKeys.
From AV Require Import LatEngine.LatMain.
From AV Require Import LatEngine.LatRBase.
Import ListNotations.
Local Open Scope nat_scope.

Inductive ltres {V : Type} :=
| LDone (st : @lstate V) (k : nat)                 (* SCC finished; k deadline readings so far *)
| LOut (R : rel -> list (vtuple V))                (* timed out: only the rows survive *)
| LFuel.

Section Model.
Context {V : Type}.
Variable I : linterp V.
Variable islat : rel -> bool.
Variable jm : rel -> V -> V -> V * bool.
Variable shuffle : nat -> list nat -> list nat.
Variable swap_oracle : nat -> list nat -> list nat -> bool.
Variable deadline : nat -> bool.

Fixpoint scc_loop_t (fuel : nat) (sc : pscc) (St T D : rel -> list nat) (R : rel -> list (vtuple V)) (tk k : nat)
  : option (((rel -> list nat) * (rel -> list (vtuple V)) * nat * nat) + (rel -> list (vtuple V))) :=
  match fuel with
  | O => None
  | S n =>
      let s := scc_iteration I islat jm shuffle swap_oracle (s_dyn sc) St T D sc R tk in
      if i_changed s then
        if deadline k then Some (inr (i_rows s))
        else scc_loop_t n sc St (merge T D) (i_new s) (i_rows s) (i_tick s) (S k)
      else Some (inl (merge T D, i_rows s, i_tick s, k))       (* `if !changed {break;}` comes before the check *)
  end.

Definition run_scc_t (fuel : nat) (sc : pscc) (st : @lstate V) (k : nat) : ltres :=
  let dyn := s_dyn sc in
  let D0 := fun r => if is_dyn dyn r then l_stored st r else [] in
  let T0 := fun _ : rel => @nil nat in
  let back := fun (Tf : rel -> list nat) r => if is_dyn dyn r then Tf r else l_stored st r in
  if s_loop sc then
    match scc_loop_t fuel sc (l_stored st) T0 D0 (l_rows st) (l_tick st) k with
    | Some (inl (Tf, R, tk, k')) => LDone {| l_rows := R; l_stored := back Tf; l_tick := tk |} k'
    | Some (inr R) => LOut R
    | None => LFuel
    end
  else
    let s := scc_iteration I islat jm shuffle swap_oracle dyn (l_stored st) T0 D0 sc (l_rows st) (l_tick st) in
    if deadline k then LOut (i_rows s)
    else LDone {| l_rows := i_rows s; l_stored := back (merge (merge T0 D0) (i_new s)); l_tick := i_tick s |} (S k).

Fixpoint run_sccs_t (fuel : nat) (pl : plan) (st : @lstate V) (k : nat) : option (bool * (rel -> list (vtuple V))) :=
  match pl with
  | [] => Some (true, l_rows st)
  | sc :: pl' => match run_scc_t fuel sc st k with
                 | LDone st' k' => run_sccs_t fuel pl' st' k'
                 | LOut R => Some (false, R)
                 | LFuel => None
                 end
  end.

(* run_timeout(..): (returned bool, rows of the program value afterwards) *)
Definition run_timeout (fuel : nat) (pl : plan) (R : rel -> list (vtuple V)) : option (bool * (rel -> list (vtuple V))) :=
  run_sccs_t fuel pl (update_indices R) 0.
End Model.

(* the clock of a correspondence run: fires at the n-th reading *)
Definition lfire_at (n : nat) (k : nat) : bool := Nat.leb n (S k).

(* ---------- the model against run_plan: done = run_scc, out = a reachable loop state ---------- *)
Section Struct.
Context {V : Type}.
Variable I : linterp V.
Variable islat : rel -> bool.
Variable jm : rel -> V -> V -> V * bool.
Variable shuffle : nat -> list nat -> list nat.
Variable swap_oracle : nat -> list nat -> list nat -> bool.

Lemma scc_loop_t_done : forall deadline fuel sc St T D R tk k Tf Rf tkf k',
  scc_loop_t I islat jm shuffle swap_oracle deadline fuel sc St T D R tk k = Some (inl (Tf, Rf, tkf, k')) ->
  scc_loop I islat jm shuffle swap_oracle fuel sc St T D R tk = Some (Tf, Rf, tkf).
Proof.
  intros deadline. induction fuel as [|fuel IH]; intros sc St T D R tk k Tf Rf tkf k' H; [discriminate|].
  cbn [scc_loop_t] in H. cbn [scc_loop].
  destruct (i_changed (scc_iteration I islat jm shuffle swap_oracle (s_dyn sc) St T D sc R tk)).
  - destruct (deadline k); [discriminate|]. eapply IH; eauto.
  - injection H as <- <- <- _. reflexivity.
Qed.

Lemma scc_loop_t_out : forall deadline fuel sc St T D R tk k R',
  scc_loop_t I islat jm shuffle swap_oracle deadline fuel sc St T D R tk k = Some (inr R') ->
  loop_reach I islat jm shuffle swap_oracle sc St T D R tk R'.
Proof.
  intros deadline. induction fuel as [|fuel IH]; intros sc St T D R tk k R' H; [discriminate|].
  cbn [scc_loop_t] in H. apply lr_next.
  destruct (i_changed (scc_iteration I islat jm shuffle swap_oracle (s_dyn sc) St T D sc R tk)); [|discriminate].
  destruct (deadline k).
  - injection H as <-. apply lr_here.
  - eapply IH; eauto.
Qed.

Lemma run_scc_t_done : forall deadline fuel sc st k st' k',
  run_scc_t I islat jm shuffle swap_oracle deadline fuel sc st k = LDone st' k' ->
  run_scc I islat jm shuffle swap_oracle fuel sc st = Some st'.
Proof.
  intros deadline fuel sc st k st' k' H. unfold run_scc_t in H. unfold run_scc. destruct (s_loop sc).
  - destruct (scc_loop_t I islat jm shuffle swap_oracle deadline fuel sc (l_stored st) (fun _ => [])
                (fun r => if is_dyn (s_dyn sc) r then l_stored st r else []) (l_rows st) (l_tick st) k) as [[[[[Tf Rf] tkf] k1]|R']|] eqn:El; try discriminate.
    injection H as <- _. rewrite (scc_loop_t_done _ _ _ _ _ _ _ _ _ _ _ _ _ El). reflexivity.
  - destruct (deadline k); [discriminate|]. injection H as <- _. reflexivity.
Qed.

Lemma run_scc_t_out : forall deadline fuel sc st k R',
  run_scc_t I islat jm shuffle swap_oracle deadline fuel sc st k = LOut R' ->
  loop_reach I islat jm shuffle swap_oracle sc (l_stored st) (fun _ => []) (fun r => if is_dyn (s_dyn sc) r then l_stored st r else [])
             (l_rows st) (l_tick st) R'.
Proof.
  intros deadline fuel sc st k R' H. unfold run_scc_t in H. destruct (s_loop sc).
  - destruct (scc_loop_t I islat jm shuffle swap_oracle deadline fuel sc (l_stored st) (fun _ => [])
                (fun r => if is_dyn (s_dyn sc) r then l_stored st r else []) (l_rows st) (l_tick st) k) as [[[[[Tf Rf] tkf] k1]|R'']|] eqn:El; try discriminate.
    injection H as <-. eapply scc_loop_t_out; eauto.
  - destruct (deadline k); [|discriminate]. injection H as <-. apply lr_next. apply lr_here.
Qed.

(* the two outcomes of run_timeout: every SCC completed, or a prefix of the SCCs completed and the next one was left
   after some number of evaluations of its rules *)
Lemma run_sccs_t_cases : forall deadline fuel rest st k b R,
  run_sccs_t I islat jm shuffle swap_oracle deadline fuel rest st k = Some (b, R) ->
  (b = true /\ exists st', run_sccs I islat jm shuffle swap_oracle fuel rest st = Some st' /\ R = l_rows st') \/
  (b = false /\ exists pre sc post st1, rest = pre ++ sc :: post /\
     run_sccs I islat jm shuffle swap_oracle fuel pre st = Some st1 /\
     loop_reach I islat jm shuffle swap_oracle sc (l_stored st1) (fun _ => []) (fun r => if is_dyn (s_dyn sc) r then l_stored st1 r else [])
                (l_rows st1) (l_tick st1) R).
Proof.
  intros deadline fuel. induction rest as [|sc rest IH]; intros st k b R H.
  - cbn [run_sccs_t] in H. injection H as <- <-. left. split; [reflexivity|]. exists st. split; reflexivity.
  - cbn [run_sccs_t] in H. destruct (run_scc_t I islat jm shuffle swap_oracle deadline fuel sc st k) as [st1 k1|R'|] eqn:H1; [| |discriminate].
    + pose proof (run_scc_t_done _ _ _ _ _ _ _ H1) as Hd. destruct (IH st1 k1 b R H) as [[-> [st' [Hr ->]]]|[-> [pre [sc' [post [st2 [-> [Hr Hl]]]]]]]].
      * left. split; [reflexivity|]. exists st'. split; [|reflexivity]. cbn [run_sccs]. rewrite Hd. exact Hr.
      * right. split; [reflexivity|]. exists (sc :: pre), sc', post, st2. split; [reflexivity|]. split; [|exact Hl].
        cbn [run_sccs]. rewrite Hd. exact Hr.
    + injection H as <- <-. right. split; [reflexivity|]. exists [], sc, rest, st. split; [reflexivity|]. split; [reflexivity|].
      eapply run_scc_t_out; eauto.
Qed.

(* a clock that never fires *)
Lemma scc_loop_t_never : forall fuel sc St T D R tk k,
  match scc_loop I islat jm shuffle swap_oracle fuel sc St T D R tk with
  | Some (Tf, Rf, tkf) => exists k', scc_loop_t I islat jm shuffle swap_oracle (fun _ => false) fuel sc St T D R tk k = Some (inl (Tf, Rf, tkf, k'))
  | None => scc_loop_t I islat jm shuffle swap_oracle (fun _ => false) fuel sc St T D R tk k = None
  end.
Proof.
  induction fuel as [|fuel IH]; intros sc St T D R tk k; [reflexivity|].
  cbn [scc_loop scc_loop_t]. destruct (i_changed (scc_iteration I islat jm shuffle swap_oracle (s_dyn sc) St T D sc R tk)).
  - apply IH.
  - exists k. reflexivity.
Qed.

Lemma run_scc_t_never : forall fuel sc st k,
  match run_scc I islat jm shuffle swap_oracle fuel sc st with
  | Some st' => exists k', run_scc_t I islat jm shuffle swap_oracle (fun _ => false) fuel sc st k = LDone st' k'
  | None => run_scc_t I islat jm shuffle swap_oracle (fun _ => false) fuel sc st k = LFuel
  end.
Proof.
  intros fuel sc st k. unfold run_scc, run_scc_t. destruct (s_loop sc).
  - pose proof (scc_loop_t_never fuel sc (l_stored st) (fun _ => []) (fun r => if is_dyn (s_dyn sc) r then l_stored st r else []) (l_rows st) (l_tick st) k) as H.
    destruct (scc_loop I islat jm shuffle swap_oracle fuel sc (l_stored st) (fun _ => [])
                (fun r => if is_dyn (s_dyn sc) r then l_stored st r else []) (l_rows st) (l_tick st)) as [[[Tf Rf] tkf]|].
    + destruct H as [k' H]. rewrite H. exists k'. reflexivity.
    + rewrite H. reflexivity.
  - exists (S k). reflexivity.
Qed.

Lemma run_sccs_t_never : forall fuel rest st k,
  run_sccs_t I islat jm shuffle swap_oracle (fun _ => false) fuel rest st k =
  option_map (fun st' => (true, l_rows st')) (run_sccs I islat jm shuffle swap_oracle fuel rest st).
Proof.
  intros fuel. induction rest as [|sc rest IH]; intros st k; [reflexivity|].
  cbn [run_sccs_t run_sccs]. pose proof (run_scc_t_never fuel sc st k) as H.
  destruct (run_scc I islat jm shuffle swap_oracle fuel sc st) as [st1|].
  - destruct H as [k' H]. rewrite H. apply IH.
  - rewrite H. reflexivity.
Qed.

Theorem lat_timeout_never : forall fuel pl R,
  run_timeout I islat jm shuffle swap_oracle (fun _ => false) fuel pl R =
  option_map (fun st' => (true, l_rows st')) (run_plan I islat jm shuffle swap_oracle fuel pl R).
Proof. intros fuel pl R. unfold run_timeout, run_plan. apply run_sccs_t_never. Qed.
End Struct.

(* ---------- the theorems ---------- *)
Section Timeout.
Context {V : Type}.
Variable I : linterp V.
Hypothesis Heq : veqb_ok I.
Variable islat : rel -> bool.
Variable lle : rel -> V -> V -> Prop.
Variable jm : rel -> V -> V -> V * bool.
Hypothesis Hlaws : forall r, islat r = true -> lat_laws (lle r) (jm r).
Variable shuffle : nat -> list nat -> list nat.
Hypothesis Hshuf : forall n l x, In x (shuffle n l) <-> In x l.
Variable swap_oracle : nat -> list nat -> list nat -> bool.
Variable arities : list (rel * nat).
Hypothesis Hfun : arities_functional arities.
Variable P : list rule.
Hypothesis Hnoagg : no_agg P = true.
Hypothesis Hmono : monotone_program I islat lle P.
Variable pl : plan.
Hypothesis Hval : validate arities P pl = true.
Hypothesis Hlatplan : lat_plan_ok islat arities pl = true.

Notation tle := (tle I islat lle).
Notation dble := (dble I islat lle).
Notation directed := (directed I islat lle).
Notation closedH := (closedH I islat lle P).
Notation input_ok := (input_ok I islat lle arities).
Notation rle := (LatBase.rle I islat lle).
Notation run := (run_plan I islat jm shuffle swap_oracle).
Notation run_t := (run_timeout I islat jm shuffle swap_oracle).
Notation is_lfp := (is_lfp I islat lle P).
Notation between := (between I islat lle arities P).
Notation padd := (padd islat).

(* c03_sound_at_every_iteration with its full conclusion: the rows of every intermediate state satisfy rows_ok
   w.r.t. EVERY directed closed J above the input (arities, one row per key, lattice elements, below J), and the
   input rows are in place, only raised *)
Lemma intermediate_ok : forall Rin (J : db) fuel pre sc post st R',
  input_ok Rin -> directed J -> closedH J -> allbelow I islat lle J Rin ->
  pl = pre ++ sc :: post ->
  run_sccs I islat jm shuffle swap_oracle fuel pre (update_indices Rin) = Some st ->
  loop_reach I islat jm shuffle swap_oracle sc (l_stored st) (fun _ => []) (fun r => if is_dyn (s_dyn sc) r then l_stored st r else [])
             (l_rows st) (l_tick st) R' ->
  rows_ok I islat lle arities J R' /\ rle Rin R'.
Proof.
  intros Rin J fuel pre sc post st R' Hin HJd HJc Hb Hpl Hrun Hreach. pose proof Hin as [A1 [A2 A3]].
  assert (H0 : GI I islat lle arities P pl J Rin (length (@nil pscc)) (update_indices Rin)).
  { unfold GI, update_indices. cbn [l_rows l_stored length]. split; [constructor; auto|]. split; [|split].
    - intros r i Hi. apply in_seq. lia.
    - apply (rle_refl I islat lle). exact A3.
    - intros j ru i _ _ Hlt. lia. }
  pose proof (run_sccs_prefix_GI I Heq islat lle jm Hlaws shuffle Hshuf swap_oracle arities Hfun P Hnoagg Hmono pl Hval Hlatplan J HJd HJc
                Rin fuel pre [] (sc :: post) _ st Hpl H0 Hrun) as [HR [Hst [Hrle _]]].
  assert (Hn : nth_error pl (length pre) = Some sc) by (rewrite Hpl, nth_error_app2, Nat.sub_diag; [reflexivity | lia]).
  pose proof (SemiNaive.val_scc_ok arities P pl Hval _ sc Hn) as Hok.
  pose proof (linv_start I islat lle arities P J sc st HR Hst) as Hl.
  destruct (loop_reach_ok I Heq islat lle jm Hlaws shuffle Hshuf swap_oracle arities Hfun (Hlat1 islat arities pl Hlatplan) P Hnoagg Hmono J HJd HJc sc Hok
              (Hlatok islat arities pl Hlatplan _ sc Hn) _ _ _ _ _ _ _ Hreach _ Hl) as [HR' Hrle'].
  split; [exact HR'|]. eapply (rle_trans I islat lle jm Hlaws); eauto.
Qed.

Lemma interrupted_state : forall Rin fuel pre sc post st R',
  input_ok Rin -> pl = pre ++ sc :: post ->
  run_sccs I islat jm shuffle swap_oracle fuel pre (update_indices Rin) = Some st ->
  loop_reach I islat jm shuffle swap_oracle sc (l_stored st) (fun _ => []) (fun r => if is_dyn (s_dyn sc) r then l_stored st r else [])
             (l_rows st) (l_tick st) R' ->
  between Rin R' /\ rle Rin R' /\ padd Rin R'.
Proof.
  intros Rin fuel pre sc post st R' Hin Hpl Hrun Hreach. pose proof Hin as [A1 [A2 A3]].
  destruct (intermediate_ok Rin (Jwf I islat lle) fuel pre sc post st R' Hin (Jwf_directed I islat lle jm Hlaws) (Jwf_closed I islat lle jm Hlaws P Hmono)
              (rows_wf_below_Jwf I islat lle Rin A3) Hpl Hrun Hreach) as [HR Hrle].
  split; [|split; [exact Hrle|]].
  - split; [|split].
    + split; [exact (ro_ar _ _ _ _ _ _ HR)|]. split; [exact (ro_key _ _ _ _ _ _ HR) | exact (ro_wf _ _ _ _ _ _ HR)].
    + apply (rle_dble I islat lle). exact Hrle.
    + intros J HJd HJc HJ.
      destruct (intermediate_ok Rin J fuel pre sc post st R' Hin HJd HJc HJ Hpl Hrun Hreach) as [HRJ _]. exact (ro_below _ _ _ _ _ _ HRJ).
  - assert (Hpl' : pl = [] ++ pre ++ sc :: post) by exact Hpl.
    destruct (run_sccs_padd I Heq islat jm shuffle swap_oracle arities P Hnoagg pl Hval Rin fuel pre [] (sc :: post) (update_indices Rin) st Hpl' A2
                (update_indices_stored Rin) (padd_refl islat Rin) Hrun) as [K1 [K2 K3]].
    assert (Hn : nth_error pl (length pre) = Some sc) by (rewrite Hpl, nth_error_app2, Nat.sub_diag; [reflexivity | lia]).
    pose proof (SemiNaive.val_scc_ok arities P pl Hval _ sc Hn) as Hok.
    exact (reach_padd I Heq islat jm shuffle swap_oracle arities P Hnoagg sc Hok Rin _ _ _ _ _ _ Hreach K1 (start_cov sc st K2) K3).
Qed.

(* `true` is an uninterrupted run *)
Theorem lat_timeout_true_run : forall deadline fuel R R',
  run_t deadline fuel pl R = Some (true, R') -> exists st, run fuel pl R = Some st /\ R' = l_rows st.
Proof.
  intros deadline fuel R R' H. unfold run_timeout in H.
  destruct (run_sccs_t_cases I islat jm shuffle swap_oracle deadline fuel pl _ _ _ _ H) as [[_ [st [Hr ->]]]|[Hf _]]; [|discriminate].
  exists st. split; [exact Hr | reflexivity].
Qed.

(* whatever run_timeout returns *)
Theorem lat_timeout_state : forall deadline Rin fuel b R,
  input_ok Rin -> run_t deadline fuel pl Rin = Some (b, R) ->
  between Rin R /\ rle Rin R /\ padd Rin R.
Proof.
  intros deadline Rin fuel b R Hin H. unfold run_timeout in H.
  destruct (run_sccs_t_cases I islat jm shuffle swap_oracle deadline fuel pl _ _ _ _ H) as [[_ [st [Hr ->]]]|[_ [pre [sc [post [st1 [Hpl [Hr Hl]]]]]]]].
  - split; [|split].
    + exact (run_between I Heq islat lle jm Hlaws shuffle Hshuf swap_oracle arities Hfun P Hnoagg Hmono pl Hval Hlatplan Rin fuel st Hin Hr).
    + exact (lat_run_grows I Heq islat lle jm Hlaws shuffle Hshuf swap_oracle arities Hfun P Hnoagg Hmono pl Hval Hlatplan Rin Hin fuel st Hr).
    + exact (run_plan_padd I Heq islat jm shuffle swap_oracle arities P Hnoagg pl Hval fuel Rin st (proj1 (proj2 Hin)) Hr).
  - exact (interrupted_state Rin fuel pre sc post st1 R Hin Hpl Hr Hl).
Qed.

Theorem lat_timeout_true : forall deadline Rin fuel R,
  input_ok Rin -> run_t deadline fuel pl Rin = Some (true, R) -> is_lfp Rin (dbof R).
Proof.
  intros deadline Rin fuel R Hin H. destruct (lat_timeout_true_run deadline fuel Rin R H) as [st [Hr ->]].
  exact (run_lfp I Heq islat lle jm Hlaws shuffle Hshuf swap_oracle arities Hfun P Hnoagg Hmono pl Hval Hlatplan Rin fuel st Hin Hr).
Qed.

(* every lattice value left by an interrupted call is below the final one: every row is below the row with the same
   key of an uninterrupted run *)
Theorem lat_timeout_below_final : forall deadline Rin fuel b R fuel0 st0,
  input_ok Rin -> run_t deadline fuel pl Rin = Some (b, R) -> run fuel0 pl Rin = Some st0 ->
  forall r row, In row (R r) -> exists row', In row' (l_rows st0 r) /\ tle r row row'.
Proof.
  intros deadline Rin fuel b R fuel0 st0 Hin H H0 r row Hrow.
  destruct (lat_timeout_state deadline Rin fuel b R Hin H) as [[_ [_ Hb]] _].
  destruct (run_lfp I Heq islat lle jm Hlaws shuffle Hshuf swap_oracle arities Hfun P Hnoagg Hmono pl Hval Hlatplan Rin fuel0 st0 Hin H0) as [F1 [F2 [F3 _]]].
  exact (Hb (dbof (l_rows st0)) F1 F2 F3 r row Hrow).
Qed.

(* any number of interrupted (or completed) calls, one after the other, each with its own clock and fuel *)
Inductive resumed (Rin : rel -> list (vtuple V)) : (rel -> list (vtuple V)) -> Prop :=
| rs_start : resumed Rin Rin
| rs_next : forall R deadline fuel b R', resumed Rin R -> run_t deadline fuel pl R = Some (b, R') -> resumed Rin R'.

Lemma resumed_state : forall Rin R, input_ok Rin -> resumed Rin R -> between Rin R /\ rle Rin R /\ padd Rin R.
Proof.
  intros Rin R Hin H. induction H as [|R deadline fuel b R' H IH Ht].
  - split; [apply (between_refl I islat lle arities P); exact Hin|]. split; [apply (rle_refl I islat lle); apply Hin | apply padd_refl].
  - destruct IH as [B1 [B2 B3]]. destruct (lat_timeout_state deadline R fuel b R' (proj1 B1) Ht) as [C1 [C2 C3]].
    split; [eapply (between_trans I islat lle jm Hlaws arities P); eauto|]. split; [eapply (rle_trans I islat lle jm Hlaws); eauto | eapply padd_trans; eauto].
Qed.

(* run() afterwards completes to exactly the least fixed point of the ORIGINAL input: the same rows as a single
   uninterrupted run() (and for lattice relations the same number of rows) *)
Theorem lat_timeout_resume_run : forall Rin R fuel st,
  input_ok Rin -> resumed Rin R -> run fuel pl R = Some st ->
  is_lfp Rin (dbof (l_rows st)) /\
  forall fuel0 st0, run fuel0 pl Rin = Some st0 ->
    (forall r t, In t (l_rows st r) <-> In t (l_rows st0 r)) /\ (forall r, islat r = true -> Permutation (l_rows st r) (l_rows st0 r)).
Proof.
  intros Rin R fuel st Hin Hres Hrun. destruct (resumed_state Rin R Hin Hres) as [HB _].
  pose proof (run_from_between I Heq islat lle jm Hlaws shuffle Hshuf swap_oracle arities Hfun P Hnoagg Hmono pl Hval Hlatplan Rin R fuel st HB Hrun) as HF.
  split; [exact HF|]. intros fuel0 st0 H0.
  apply (lfp_same_rows I islat lle jm Hlaws P Rin (l_rows st) (l_rows st0)); [| |exact HF|].
  - refine (proj1 (proj2 _)). exact (run_input_ok I Heq islat lle jm Hlaws shuffle Hshuf swap_oracle arities Hfun P Hnoagg Hmono pl Hval Hlatplan R fuel st (proj1 HB) Hrun).
  - refine (proj1 (proj2 _)). exact (run_input_ok I Heq islat lle jm Hlaws shuffle Hshuf swap_oracle arities Hfun P Hnoagg Hmono pl Hval Hlatplan Rin fuel0 st0 Hin H0).
  - exact (run_lfp I Heq islat lle jm Hlaws shuffle Hshuf swap_oracle arities Hfun P Hnoagg Hmono pl Hval Hlatplan Rin fuel0 st0 Hin H0).
Qed.

(* ... and a later run_timeout that returns true has reached that same least fixed point *)
Theorem lat_timeout_resume_true : forall Rin R deadline fuel R',
  input_ok Rin -> resumed Rin R -> run_t deadline fuel pl R = Some (true, R') -> is_lfp Rin (dbof R').
Proof.
  intros Rin R deadline fuel R' Hin Hres H. destruct (lat_timeout_true_run deadline fuel R R' H) as [st [Hr ->]].
  exact (proj1 (lat_timeout_resume_run Rin R fuel st Hin Hres Hr)).
Qed.
(* the same with every definition unfolded (the form restated in Props/C14.v) *)
Theorem lat_timeout_correct : forall deadline Rin fuel b R,
  input_ok Rin -> run_t deadline fuel pl Rin = Some (b, R) ->
  input_ok R
  /\ (forall r i row, nth_error (Rin r) i = Some row -> exists row', nth_error (R r) i = Some row' /\ tle r row row')
  /\ (forall r, islat r = false -> exists added, R r = Rin r ++ added /\ NoDup added /\ (forall t, In t added -> ~ In t (Rin r)))
  /\ (forall J : db, directed J -> closedH J -> dble (dbof Rin) J -> dble (dbof R) J)
  /\ (b = true -> directed (dbof R) /\ closedH (dbof R) /\ dble (dbof Rin) (dbof R) /\
                 forall J : db, directed J -> closedH J -> dble (dbof Rin) J -> dble (dbof R) J).
Proof.
  intros deadline Rin fuel b R Hin H. destruct (lat_timeout_state deadline Rin fuel b R Hin H) as [[B1 [B2 B3]] [B4 B5]].
  split; [exact B1|]. split; [exact B4|]. split; [exact B5|]. split; [exact B3|].
  intros ->. exact (lat_timeout_true deadline Rin fuel R Hin H).
Qed.

Theorem lat_resumed_correct : forall Rin R,
  input_ok Rin -> resumed Rin R ->
  input_ok R
  /\ (forall r i row, nth_error (Rin r) i = Some row -> exists row', nth_error (R r) i = Some row' /\ tle r row row')
  /\ (forall r, islat r = false -> exists added, R r = Rin r ++ added /\ NoDup added /\ (forall t, In t added -> ~ In t (Rin r)))
  /\ (forall J : db, directed J -> closedH J -> dble (dbof Rin) J -> dble (dbof R) J).
Proof.
  intros Rin R Hin H. destruct (resumed_state Rin R Hin H) as [[B1 [B2 B3]] [B4 B5]].
  split; [exact B1|]. split; [exact B4|]. split; [exact B5 | exact B3].
Qed.
End Timeout.
