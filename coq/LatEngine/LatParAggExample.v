(* C02, lattice half WITH aggregation - non-vacuity: a concrete parallel run of a program with an aggregate over a LATTICE
   relation that an earlier SCC raises in parallel.

   Program (relation 0 = e(i32, i32), relation 1 = lattice d(i32, Dual<u32>), relation 2 = m(i32, u32)):
       d(y, v) <-- d(x, v), e(x, y);                         (LatParExample.v: one looping SCC, d dynamic)
       m(x, n) <-- e(x, y), agg n = min(v) in d(x, v);       (a later, non-looping SCC; the aggregate BINDS the lattice
                                                              column, so the generated parallel code copies the rows
                                                              through rows[i].read().clone() - fix 91f3357)
   on the input e = {(0,1), (1,0)}, d = {0 -> 3, 1 -> 5}.
   SCC 1: the two-worker run of LatParExample.v (worker 1 observes the value worker 0 has just raised): d = {0 -> 3, 1 -> 3}.
   SCC 2: one iteration, no lattice relation is written; the rule is evaluated once per row of e, the aggregate reads the
   TOTAL index of d = rows 0 and 1, each once, with the values SCC 1 left: m = {(0,3), (1,3)}.
   All hypotheses of LatParAggMain.par_lat_agg_run_stratified_model hold; the theorem is applied to the run and the run
   agrees with the serial model with aggregates (LatAggEval.arun_plan). *)
From Coq Require Import List ZArith Bool Arith Lia Permutation.
From AV Require Import Engine.Core.
From AV Require Import Engine.Eval.
From AV Require Import Engine.Validate.
From AV Require Import Engine.Naive.
From AV Require Import Engine.Vocab.
From AV Require Import Engine.InterfaceAgg.
From AV Require Engine.ParLat.
From AV Require Import LatEngine.LatSyntax.
From AV Require Import LatEngine.LatEval.
From AV Require Import LatEngine.LatPlan.
From AV Require Import LatEngine.LatSem.
From AV Require Import LatEngine.LatBase.
From AV Require Import LatEngine.LatKeys.
From AV Require Import LatEngine.LatEnv.
From AV Require Import LatEngine.LatMono.
From AV Require Import LatEngine.LatVocab.
From AV Require Import LatEngine.LatExample.
From AV Require Import LatEngine.LatAggEval.
From AV Require Import LatEngine.LatAggTrans.
From AV Require Import LatEngine.LatAggInv.
From AV Require Import LatEngine.LatAggSem.
From AV Require Import LatEngine.LatAggMain.
From AV Require Import LatEngine.LatAggExample.
From AV Require Import LatEngine.LatParModel.
From AV Require Import LatEngine.LatParExample.
From AV Require Import LatEngine.LatParAggModel.
From AV Require Import LatEngine.LatParAggEmbed.
From AV Require Import LatEngine.LatParAggMain.
Import ListNotations.
Open Scope Z_scope.

Definition pax_arities : list (rel * nat) := [(0%nat, 2%nat); (1%nat, 2%nat); (2%nat, 2%nat)].
Definition pax_rule : rule :=
  {| heads := [(2%nat, [TVar 0%nat; TVar 3%nat])];
     body := [BClause 0%nat [TVar 0%nat; TVar 1%nat] []; BAgg (Some 3%nat) 2%nat [2%nat] 1%nat [AKey (TVar 0%nat); ABound 2%nat]] |}.
Definition pax_prog : list rule := px_prog ++ [pax_rule].
Definition pax_var : variant :=
  {| v_rule := 1%nat; v_heads := [(2%nat, [TVar 0%nat; TVar 3%nat])];
     v_items := [PClause 0%nat [TVar 0%nat; TVar 1%nat] [] [] VTotal;
                 PAgg (Some 3%nat) 2%nat [2%nat] 1%nat [AKey (TVar 0%nat); ABound 2%nat] [0%nat]];
     v_sj := None; v_reord := false |}.
Definition pax_scc : pscc := {| s_vars := [pax_var]; s_dyn := [2%nat]; s_loop := false |}.
Definition pax_plan : plan := px_plan ++ [pax_scc].

(* ---------- the hypotheses of the theorems hold ---------- *)
Lemma pax_checks : validate pax_arities pax_prog pax_plan = true /\ alat_plan_ok sp_islat pax_arities pax_plan = true
                   /\ plan_below 4%nat pax_plan = true.
Proof. vm_compute. repeat split. Qed.

Lemma pax_arities_functional : arities_functional pax_arities.
Proof. intros r n m H1 H2. cbn in H1, H2. destruct H1 as [H1|[H1|[H1|[]]]], H2 as [H2|[H2|[H2|[]]]]; congruence. Qed.

Lemma pax_monotone : amonotone_program lv_interp sp_islat sp_lle 4%nat pax_prog.
Proof.
  intros ru Hin. cbn in Hin. destruct Hin as [<-|[<-|[]]].
  - exists (Gat 1%nat). split; [|intros x a _; apply Gat_refl]. split; [apply Gat_dom|]. split; cbn [body heads].
    + constructor; [|constructor; [|constructor]]; cbn [amono_item]; (split; [|constructor]); unfold mono_clause.
      * rewrite sp_islat_1. exists [TVar 0%nat], 1%nat. split; [reflexivity|]. split.
        -- plain_vars 1%nat [0%nat].
        -- intros a b H. apply Gat_at. exact H.
      * rewrite sp_islat_0. plain_vars 1%nat [0%nat; 2%nat].
    + constructor; [|constructor]. unfold mono_head. cbn [fst snd]. rewrite sp_islat_1.
      exists [TVar 2%nat], (TVar 1%nat). split; [reflexivity|]. split.
      * plain_vars 1%nat [2%nat].
      * apply mono_term_var. intros a b H. apply Gat_at in H. exact H.
  - exists (Gat 9%nat). split; [|intros x a _; apply Gat_refl]. split; [apply Gat_dom|]. split; cbn [body heads pax_rule].
    + constructor; [|constructor; [|constructor]]; cbn [amono_item].
      * split; [|constructor]. unfold mono_clause. rewrite sp_islat_0. plain_vars 9%nat [0%nat; 1%nat].
      * split.
        -- change (Forall (plain_term (Gat 9%nat)) (map TVar [0%nat])). plain_vars 9%nat [0%nat].
        -- intros x Hx. injection Hx as <-. apply Gat_plain. discriminate.
    + constructor; [|constructor]. unfold mono_head. cbn [fst snd]. rewrite sp_islat_2.
      plain_vars 9%nat [0%nat; 3%nat].
Qed.

Lemma pax_input_ok : ainput_ok lv_interp sp_islat sp_lle pax_arities px_input.
Proof.
  split; [|split; [|split]].
  - intros r row Hin n Hn. unfold px_input in Hin. destruct r as [|[|r]]; cbn in Hin, Hn.
    + destruct n as [|[|[|n]]]; try discriminate. destruct Hin as [<-|[<-|[]]]; reflexivity.
    + destruct n as [|[|[|n]]]; try discriminate. destruct Hin as [<-|[<-|[]]]; reflexivity.
    + destruct Hin.
  - intros r Hl. unfold px_input. destruct r as [|[|r]]; cbn; repeat constructor; cbn; intuition discriminate.
  - intros r row Hl Hin. unfold sp_lle. apply Z.le_refl.
  - intros r Hl. unfold px_input. destruct r as [|[|r]]; cbn; repeat constructor; cbn; intuition discriminate.
Qed.

(* ---------- the parallel run ---------- *)
Lemma px_run_scc : par_lat_run_scc lv_interp sp_islat sp_jm px_scc (update_indices px_input) px_final.
Proof.
  unfold par_lat_run_scc. cbn [s_loop px_scc]. exists (merge T2 N1), px_rows. split; [|reflexivity].
  eapply pll_step; [exact px_iteration_1|]. apply pll_exit with (N' := N2). exact px_iteration_2.
Qed.

(* SCC 2: the rows, the new version and the contributions *)
Definition pax_m : list (list Z) := [[0; 3]; [1; 3]].
Definition pax_rows : rel -> list (list Z) := fun r => if Nat.eqb r 2 then pax_m else px_rows r.
Definition pax_N : rel -> list nat := fun r => if Nat.eqb r 2 then [0%nat; 1%nat] else [].
Definition pax_Cp : rel -> list (list Z) := fun r => if Nat.eqb r 2 then pax_m else [].
Definition pax_work : rel -> list (list (list Z * Z)) := fun _ => [].
Definition pax_T0 : rel -> list nat := fun _ => [].
Definition pax_D0 : rel -> list nat := fun r => if is_dyn (s_dyn pax_scc) r then l_stored px_final r else [].

Definition pax_final : @lstate Z :=
  {| l_rows := pax_rows;
     l_stored := fun r => if is_dyn (s_dyn pax_scc) r then merge (merge pax_T0 pax_D0) pax_N r else l_stored px_final r;
     l_tick := l_tick px_final |}.

Lemma pax_dyn_is_2 : forall r, is_dyn (s_dyn pax_scc) r = true -> r = 2%nat.
Proof. intros r H. cbn in H. rewrite orb_false_r in H. apply Nat.eqb_eq in H. exact H. Qed.
Lemma pax_nondyn_not_2 : forall r, is_dyn (s_dyn pax_scc) r = false -> Nat.eqb r 2 = false.
Proof. intros r H. cbn in H. rewrite orb_false_r in H. exact H. Qed.

Notation pax_seen := (seen lv_interp sp_islat sp_jm pax_scc pax_T0 pax_D0 px_rows px_mx px_kfirst pax_work []).

Lemma pax_seen_now : forall r i t, nth_error (px_rows r) i = Some t -> latdyn sp_islat pax_scc r = false -> pax_seen r i t.
Proof. intros r i t H Hl. exists [], []. split; [reflexivity|]. unfold cur. cbn [grun fold_left]. rewrite Hl. exact H. Qed.

(* the aggregate min(v) in d(x, v) under x: the TOTAL index of d lists rows 0 and 1; both are read, the row with key x is selected *)
Lemma pax_agg_reads : forall (e : venv Z) x, vlookup e 0%nat = Some x -> (x = 0 \/ x = 1) ->
  agg_reads lv_interp std_aint sp_islat (s_dyn pax_scc) (l_stored px_final) pax_T0 pax_D0 pax_seen
            e 2%nat [2%nat] 1%nat [AKey (TVar 0%nat); ABound 2%nat] [0%nat] [3].
Proof.
  intros e x He Hx. exists [x], [0%nat; 1%nat], [[0; 3]; [1; 3]].
  split; [cbn [vagg_key nth_error veval_term]; rewrite He; reflexivity|].
  split; [vm_compute; apply Permutation_refl|].
  split; [constructor; [apply pax_seen_now; reflexivity | constructor; [apply pax_seen_now; reflexivity | constructor]]|].
  destruct Hx as [->| ->]; vm_compute; reflexivity.
Qed.

Lemma pax_iteration : par_lat_agg_iteration lv_interp std_aint sp_islat sp_jm pax_scc (l_stored px_final) pax_T0 pax_D0 px_rows
                                            pax_rows pax_N true.
Proof.
  exists px_mx, px_kfirst, pax_work, pax_Cp, [], pax_Cp. cbv zeta.
  split; [|split; [|split; [|split; [|split]]]].
  - (* causal *) split.
    + intros pre r j post kv Hs. destruct pre; discriminate Hs.
    + intros r t _ Hin. unfold pax_Cp in Hin. destruct (Nat.eqb r 2) eqn:Er; [|destruct Hin]. apply Nat.eqb_eq in Er. subst r.
      destruct Hin as [<-|[<-|[]]].
      * exists pax_var, (v_items pax_var), [Some 0; Some 1; None; Some 3], (2%nat, [TVar 0%nat; TVar 3%nat]).
        split; [left; reflexivity|]. split; [left; reflexivity|]. split; [|split; [left; reflexivity | reflexivity]].
        eapply asato_clause with (i := 0%nat) (t := [0; 1]);
          [vm_compute; auto | apply pax_seen_now; reflexivity | vm_compute; reflexivity | reflexivity |].
        eapply asato_agg with (vals := [3]) (v := 3); [apply (pax_agg_reads _ 0); [reflexivity | left; reflexivity] | left; reflexivity|].
        apply asato_nil.
      * exists pax_var, (v_items pax_var), [Some 1; Some 0; None; Some 3], (2%nat, [TVar 0%nat; TVar 3%nat]).
        split; [left; reflexivity|]. split; [left; reflexivity|]. split; [|split; [left; reflexivity | reflexivity]].
        eapply asato_clause with (i := 1%nat) (t := [1; 0]);
          [vm_compute; auto | apply pax_seen_now; reflexivity | vm_compute; reflexivity | reflexivity |].
        eapply asato_agg with (vals := [3]) (v := 3); [apply (pax_agg_reads _ 1); [reflexivity | right; reflexivity] | left; reflexivity|].
        apply asato_nil.
  - (* exhaustive *) intros v Hv _. destruct Hv as [<-|[]]. exists (v_items pax_var). split; [left; reflexivity|].
    apply acov_clause. intros i Hi. vm_compute in Hi. destruct Hi as [<-|[<-|[]]].
    + exists [0; 1]. split; [apply pax_seen_now; reflexivity|].
      intros e1 e2 H1 H2. vm_compute in H1. injection H1 as <-. vm_compute in H2. injection H2 as <-.
      apply acov_agg. intros key _. exists [3]. split; [apply (pax_agg_reads _ 0); [reflexivity | left; reflexivity]|].
      intros v [<-|[]]. apply acov_nil. intros h f Hh Hf. destruct Hh as [<-|[]]. vm_compute in Hf. injection Hf as <-. vm_compute. auto.
    + exists [1; 0]. split; [apply pax_seen_now; reflexivity|].
      intros e1 e2 H1 H2. vm_compute in H1. injection H1 as <-. vm_compute in H2. injection H2 as <-.
      apply acov_agg. intros key _. exists [3]. split; [apply (pax_agg_reads _ 1); [reflexivity | right; reflexivity]|].
      intros v [<-|[]]. apply acov_nil. intros h f Hh Hf. destruct Hh as [<-|[]]. vm_compute in Hf. injection Hf as <-. vm_compute. auto.
  - (* no lattice relation is written *) intros r Hr. unfold latdyn in Hr. apply andb_true_iff in Hr as [H1 H2].
    apply pax_dyn_is_2 in H2. subst r. discriminate H1.
  - (* m: both derived rows are new *) intros r _ Hd. apply pax_dyn_is_2 in Hd. subst r.
    split; [reflexivity|]. split; [repeat constructor; cbn; intuition discriminate|]. split; [|reflexivity].
    intros t. split; [intros H; split; [exact H | reflexivity] | intros [H _]; exact H].
  - intros r Hd. apply pax_nondyn_not_2 in Hd. unfold pax_rows, pax_N. rewrite Hd. split; reflexivity.
  - vm_compute. reflexivity.
Qed.

Lemma pax_run_scc : par_lat_agg_run_scc lv_interp std_aint sp_islat sp_jm pax_scc px_final pax_final.
Proof.
  unfold par_lat_agg_run_scc. cbn [s_loop pax_scc]. exists pax_rows, pax_N, true. split; [exact pax_iteration | reflexivity].
Qed.

Theorem pax_parallel_run : par_lat_agg_run_plan lv_interp std_aint sp_islat sp_jm pax_plan px_input pax_final.
Proof.
  unfold par_lat_agg_run_plan. change pax_plan with [px_scc; pax_scc].
  eapply pra_cons; [apply par_agg_run_scc_noagg; [reflexivity | exact px_run_scc]|].
  eapply pra_cons; [exact pax_run_scc | apply pra_nil].
Qed.

Lemma pax_result : l_rows pax_final 1%nat = [[0; 3]; [1; 3]] /\ l_rows pax_final 2%nat = [[0; 3]; [1; 3]].
Proof. split; reflexivity. Qed.

(* the serial model with aggregates on the same input *)
Lemma pax_serial : option_map (fun st => (l_rows st 1%nat, l_rows st 2%nat))
                     (arun_plan lv_interp std_aint sp_islat sp_jm lv_shuffle lv_shuffle lv_swap 10 pax_plan px_input)
                   = Some ([[0; 3]; [1; 3]], [[1; 3]; [0; 3]]).     (* m: the same rows, pushed in another order *)
Proof. vm_compute. reflexivity. Qed.

(* the theorems applied to the run *)
Theorem pax_instance :
  strat_lat_model lv_interp std_aint sp_islat sp_lle (plan_strata pax_prog pax_plan) px_input (l_rows pax_final)
  /\ keys_ok sp_islat (l_rows pax_final)
  /\ forall st_ser, arun_plan lv_interp std_aint sp_islat sp_jm lv_shuffle lv_shuffle lv_swap 10 pax_plan px_input = Some st_ser ->
       forall r, Permutation (l_rows pax_final r) (l_rows st_ser r).
Proof.
  destruct pax_checks as [Hval [Halat Hbelow]].
  destruct (par_lat_agg_run_stratified_model lv_interp sp_eq std_aint ag_agg_perm sp_islat sp_lle sp_jm sp_laws pax_arities
              pax_arities_functional pax_prog 4%nat pax_monotone pax_plan Hval Halat Hbelow px_input pax_final pax_input_ok pax_parallel_run)
    as [_ [_ [Hm [Hk _]]]].
  split; [exact Hm|]. split; [exact Hk|]. intros st_ser Hser.
  exact (proj2 (par_lat_agg_equals_serial lv_interp sp_eq std_aint ag_agg_perm sp_islat sp_lle sp_jm sp_laws pax_arities
                  pax_arities_functional pax_prog 4%nat pax_monotone pax_plan Hval Halat Hbelow lv_shuffle lv_shuffle lv_swap 10%nat
                  px_input pax_final st_ser sp_shuffle_ok ag_ashuffle_ok pax_input_ok pax_parallel_run Hser)).
Qed.

Print Assumptions pax_parallel_run.
Print Assumptions pax_instance.
