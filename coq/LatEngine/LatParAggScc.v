(* C02, lattice half WITH aggregation - one SCC of the parallel lattice engine.
   Part 1 (no aggregates, any parallel run of LatParModel): the two structural invariants the reduction needs BETWEEN
   SCCs, for parallel runs - the rows of a plain relation stay duplicate free and the stored (total) indices are EXACT
   (each row number once, a number is stored iff it is a row): what LatAggInv.run_scc_exact says of the serial engine.
   Part 2: by the reduction (LatParAggSim.par_run_scc_tr) and the per-SCC theorem of the parallel engine
   (LatParMain.par_run_scc_spec), every parallel run of an SCC with aggregates ends in the least fixed point of the
   stratum over the rows before it (LatAggSem.stratum_lfp) - what LatAggStrata.arun_scc_spec says of the serial engine. *)
From Coq Require Import List ZArith Bool Arith Lia Permutation.
From AV Require Import Engine.Core.
From AV Require Import Engine.Eval.
From AV Require Import Engine.Validate.
From AV Require Import Engine.Naive.
From AV Require Import Engine.NaiveLemmas.
From AV Require Import Engine.AggLemmas.
From AV Require Import Engine.StrataAgg.
From AV Require Import Engine.StratFixed.
From AV Require Import Engine.Strat.
From AV Require Engine.ParLat.
From AV Require Import LatEngine.LatSyntax.
From AV Require Import LatEngine.LatEval.
From AV Require Import LatEngine.LatPlan.
From AV Require Import LatEngine.LatSem.
From AV Require Import LatEngine.LatBase.
From AV Require Import LatEngine.LatHead.
From AV Require Import LatEngine.LatItems.
From AV Require Import LatEngine.LatScc.
From AV Require Import LatEngine.LatMain.
From AV Require Import LatEngine.LatKeys.
From AV Require Import LatEngine.LatAggEval.
From AV Require Import LatEngine.LatAggTrans.
From AV Require Import LatEngine.LatAggKey.
From AV Require Import LatEngine.LatAggInv.
From AV Require Import LatEngine.LatAggSem.
From AV Require Import LatEngine.LatAggSemEq.
From AV Require Import LatEngine.LatAggValid.
From AV Require Import LatEngine.LatAggStrata.
From AV Require Import LatEngine.LatParModel.
From AV Require Import LatEngine.LatParIter.
From AV Require Import LatEngine.LatParMain.
From AV Require Import LatEngine.LatParAggModel.
From AV Require Import LatEngine.LatParAggSim.
Import ListNotations.
Local Open Scope nat_scope.

Lemma nodup_app_disj : forall (X : Type) (l1 l2 : list X), NoDup l1 -> NoDup l2 -> (forall x, In x l1 -> ~ In x l2) -> NoDup (l1 ++ l2).
Proof.
  intros X. induction l1 as [|a l1 IH]; intros l2 H1 H2 Hd; [exact H2|].
  inversion H1 as [|? ? Ha H1']; subst. cbn [app]. constructor.
  - intros Hin. apply in_app_or in Hin. destruct Hin as [Hin|Hin]; [contradiction|]. exact (Hd a (or_introl eq_refl) Hin).
  - apply IH; auto. intros x Hx. apply Hd. right. exact Hx.
Qed.

(* ---------- Part 1: exactness of the indices and duplicate freedom, parallel runs without aggregates ---------- *)
Section Exact.
Context {V : Type}.
Variable I : linterp V.
Hypothesis Heq : veqb_ok I.
Variable islat : rel -> bool.
Variable lle : rel -> V -> V -> Prop.
Variable jm : rel -> V -> V -> V * bool.
Hypothesis Hlaws : forall r, islat r = true -> lat_laws (lle r) (jm r).
Variable arities : list (rel * nat).
Hypothesis Hfun : arities_functional arities.
Hypothesis Hlat1 : forall r n, islat r = true -> arity_ok arities r n = true -> 0 < n.
Variable P : list rule.
Hypothesis Hnoagg : no_agg P = true.
Hypothesis Hmono : monotone_program I islat lle P.
Variable J : db (V:=V).
Hypothesis HJdir : directed I islat lle J.
Hypothesis HJcl : closedH I islat lle P J.
Variable sc : pscc.
Hypothesis Hok : scc_ok arities P sc = true.
Hypothesis Hlatok : forallb (lat_variant_ok islat) (s_vars sc) = true.

Notation dyn := (s_dyn sc).
Notation linv := (linv I islat lle arities P J sc).
Notation rows_ok := (rows_ok I islat lle arities J).

Record xok (T D : rel -> list nat) (R : rel -> list (vtuple V)) : Prop := {
  x_plain : plain_nodup islat R;
  x_T : forall r, NoDup (T r);
  x_bd : forall r i, In i (T r) \/ In i (D r) -> i < length (R r)
}.

Lemma par_iter_exact : forall St Rinit O R T D R' N' ch', linv St Rinit O R T D -> xok T D R ->
  par_lat_iteration I islat jm sc St T D R R' N' ch' ->
  xok (merge T D) N' R'
  /\ (forall r, length (R r) <= length (R' r))
  /\ (forall r i, is_dyn dyn r = true -> i < length (R' r) -> i < length (R r) \/ In i (N' r))
  /\ (forall r, is_dyn dyn r = false -> R' r = R r).
Proof.
  intros St Rinit O R T D R' N' ch' Hl [Xp XT Xb] Hit.
  destruct (par_iteration_spec I Heq islat lle jm Hlaws arities Hfun Hlat1 P Hnoagg Hmono J HJdir HJcl sc Hok Hlatok
              St T D R R' N' ch' (li_rows _ _ _ _ _ _ _ _ _ _ _ _ _ Hl) (li_cov _ _ _ _ _ _ _ _ _ _ _ _ _ Hl) Hit) as [[Hs _] _].
  cbn [i_rows i_new i_changed] in Hs.
  assert (Hlen : forall r, length (R r) <= length (R' r)).
  { intros r. destruct (le_lt_dec (length (R r)) (length (R' r))) as [Hle|Hlt]; [exact Hle|exfalso].
    destruct (nth_error (R r) (length (R' r))) as [row|] eqn:E; [|apply nth_error_None in E; lia].
    destruct (si_rle _ _ _ _ _ _ _ Hs r _ row E) as [row' [E' _]]. cbn [i_rows] in E'.
    assert (En : nth_error (R' r) (length (R' r)) = None) by (apply nth_error_None; lia). congruence. }
  assert (Hsta : forall r, is_dyn dyn r = false -> R' r = R r).
  { intros r Hd. exact (proj1 (si_sta _ _ _ _ _ _ _ Hs r Hd)). }
  split; [|split; [exact Hlen|split; [|exact Hsta]]].
  - constructor.
    + intros r Hl0. destruct (is_dyn dyn r) eqn:Hd; [|rewrite (Hsta r Hd); apply Xp; exact Hl0].
      destruct Hit as [mx [kfirst [work [Cp [sched [A [_ [_ [_ [Hplain _]]]]]]]]]].
      destruct (Hplain r Hl0 Hd) as [E [HA [Hmem _]]]. rewrite E.
      apply nodup_app_disj; [apply Xp; exact Hl0 | exact HA|].
      intros t Ht HtA. apply Hmem in HtA. destruct HtA as [_ Hm]. apply orb_false_elim in Hm. destruct Hm as [M1 M2].
      apply In_nth_error in Ht. destruct Ht as [i Hi]. pose proof (nth_error_In_lt _ _ _ _ Hi) as Hil.
      destruct (li_cov _ _ _ _ _ _ _ _ _ _ _ _ _ Hl r i Hd Hil) as [HT|HD].
      * assert (Hm : mem_row I (R r) t (T r) = true) by (apply (mem_row_spec I Heq); exists i; auto). congruence.
      * assert (Hm : mem_row I (R r) t (D r) = true) by (apply (mem_row_spec I Heq); exists i; auto). congruence.
    + intros r. unfold merge. apply nunion_NoDup. apply XT.
    + intros r i [Hi|Hi].
      * unfold merge in Hi. rewrite nunion_In in Hi. pose proof (Xb r i Hi). pose proof (Hlen r). lia.
      * exact (si_new _ _ _ _ _ _ _ Hs r i Hi).
  - intros r i Hd Hi. exact (si_cov _ _ _ _ _ _ _ Hs r i Hd Hi).
Qed.

Lemma par_loop_exact : forall St T D R Tf Rf, par_lat_loop I islat jm sc St T D R Tf Rf ->
  forall Rinit O, linv St Rinit O R T D -> xok T D R ->
  plain_nodup islat Rf /\ (forall r, NoDup (Tf r)) /\ (forall r i, In i (Tf r) -> i < length (Rf r)).
Proof.
  intros St T D R Tf Rf H. induction H as [T D R R' N' Hit | T D R R' N' Tf Rf Hit Hloop IH]; intros Rinit O Hl Hx.
  - destruct (par_iter_exact St Rinit O R T D R' N' false Hl Hx Hit) as [[Xp XT Xb] _].
    split; [exact Xp|]. split; [exact XT|]. intros r i Hi. apply Xb. left. exact Hi.
  - destruct (par_iter_exact St Rinit O R T D R' N' true Hl Hx Hit) as [Hx' _].
    destruct (par_linv_next I Heq islat lle jm Hlaws arities Hfun Hlat1 P Hnoagg Hmono J HJdir HJcl sc Hok Hlatok
                St Rinit O R T D R' N' true Hl Hit) as [Hn _].
    exact (IH Rinit R Hn Hx').
Qed.

Theorem par_run_scc_exact : forall (st st' : @lstate V), rows_ok (l_rows st) ->
  plain_nodup islat (l_rows st) -> stored_exact st ->
  par_lat_run_scc I islat jm sc st st' ->
  plain_nodup islat (l_rows st') /\ stored_exact st'.
Proof.
  intros st st' HR HP Hst Hrun.
  assert (Hcov : forall r i, i < length (l_rows st r) -> In i (l_stored st r)) by (intros r i Hi; apply (proj2 (Hst r)); exact Hi).
  pose proof (linv_start I islat lle arities P J sc st HR Hcov) as Hl.
  assert (Hx : xok (fun _ => []) (fun r => if is_dyn dyn r then l_stored st r else []) (l_rows st)).
  { constructor; [exact HP | intros r; constructor|].
    intros r i [[]|Hi]. destruct (is_dyn dyn r); [apply (Hst r); exact Hi | destruct Hi]. }
  unfold par_lat_run_scc in Hrun. cbv zeta in Hrun. destruct (s_loop sc).
  - destruct Hrun as [Tf [Rf [Hlp ->]]]. cbn [l_rows l_stored].
    destruct (par_loop_exact _ _ _ _ Tf Rf Hlp _ _ Hl Hx) as [G1 [G2 G3]].
    destruct (par_loop_spec I Heq islat lle jm Hlaws arities Hfun Hlat1 P Hnoagg Hmono J HJdir HJcl sc Hok Hlatok
                _ _ _ _ Tf Rf Hlp _ _ Hl) as [_ [_ [_ [G4 G5]]]].
    split; [exact G1|]. intros r. cbn [l_rows l_stored]. destruct (is_dyn dyn r) eqn:Hd.
    + split; [apply G2|]. intros i. split; [apply G3 | apply G4; exact Hd].
    + rewrite (G5 r Hd). exact (Hst r).
  - destruct Hrun as [R' [N' [b [Hit ->]]]]. cbn [l_rows l_stored].
    destruct (par_iter_exact _ _ _ _ _ _ R' N' b Hl Hx Hit) as [[Xp XT Xb] [Hlen [Hc Hsta]]].
    split; [exact Xp|]. intros r. cbn [l_rows l_stored]. destruct (is_dyn dyn r) eqn:Hd.
    + split.
      * unfold merge. apply nunion_NoDup. apply nunion_NoDup. constructor.
      * intros i. unfold merge. rewrite !nunion_In. rewrite Hd. split.
        -- intros [[[]|Hi]|Hi].
           ++ apply (Hst r) in Hi. pose proof (Hlen r). lia.
           ++ apply Xb. right. exact Hi.
        -- intros Hi. destruct (Hc r i Hd Hi) as [H|H]; [|right; exact H]. left. right. apply (Hst r). exact H.
    + rewrite (Hsta r Hd). exact (Hst r).
Qed.
End Exact.

(* ---------- Part 2: one SCC with aggregates ---------- *)
Section PAScc.
Context {V : Type}.
Variable I : linterp V.
Hypothesis Heq : veqb_ok I.
Variable vagg : nat -> list (list V) -> list V.
Hypothesis Hperm : forall a l l', Permutation l l' -> vagg a l = vagg a l'.
Variable islat : rel -> bool.
Variable lle : rel -> V -> V -> Prop.
Variable jm : rel -> V -> V -> V * bool.
Hypothesis Hlaws : forall r, islat r = true -> lat_laws (lle r) (jm r).
Variable arities : list (rel * nat).
Hypothesis Hfun : arities_functional arities.
Hypothesis Hlat1 : forall r n, islat r = true -> arity_ok arities r n = true -> 0 < n.
Variable P : list rule.
Variable K : nat.
Variable N : var.
Hypothesis HK : body_bound K P = true.
Hypothesis Hmono : amonotone_program I islat lle N P.
Variable sc : pscc.
Hypothesis Hok : scc_ok arities P sc = true.
Hypothesis Hbelow : forallb (variant_below N) (s_vars sc) = true.
Hypothesis Halat : forallb (alat_variant_ok islat) (s_vars sc) = true.

Notation AG := (AG I islat lle arities).
Notation Pk := (scc_prog P K N sc).
Notation sc' := (tr_scc K N sc).

Theorem par_agg_run_scc_spec : forall (st st' : @lstate V), AG st ->
  par_lat_agg_run_scc I vagg islat jm sc st st' ->
  AG st'
  /\ (forall r, is_dyn (s_dyn sc) r = false -> l_rows st' r = l_rows st r)
  /\ stratum_lfp I vagg islat lle (stratum_of P sc) (l_rows st) (l_rows st').
Proof.
  intros st st' [Har Hkey Hwf Hpl Hst] Hrun0.
  pose proof (par_run_scc_tr I Heq vagg Hperm islat jm arities P K N HK sc st st' Hok Hbelow Hst Hpl Hrun0) as Hrun.
  set (A := l_rows st) in *. set (I' := tr_interp I vagg islat P K A) in *.
  assert (Heq' : veqb_ok I') by exact Heq.
  assert (Htr : scc_ok arities Pk sc' = true) by exact (scc_ok_tr arities P K N sc Hok Hbelow).
  assert (Hlat' : forallb (lat_variant_ok islat) (s_vars sc') = true) by exact (sc'_lat_ok islat K N sc Halat).
  assert (Hna : no_agg Pk = true) by apply scc_prog_no_agg.
  assert (Hmk : monotone_program I' islat lle Pk) by exact (Pk_mono I vagg islat lle arities P K N HK Hmono sc Hok Hbelow A).
  assert (Hcov : forall r i, i < length (l_rows st r) -> In i (l_stored st r)) by (intros r i Hi; apply (proj2 (Hst r)); exact Hi).
  assert (HRwf : rows_ok I' islat lle arities (Jwf I' islat lle) A).
  { constructor; [exact Har | exact Hkey | exact Hwf | apply rows_wf_below_Jwf; exact Hwf]. }
  destruct (par_run_scc_spec I' Heq' islat lle jm Hlaws arities Hfun Hlat1 Pk Hna Hmk (Jwf I' islat lle)
              (Jwf_directed I' islat lle jm Hlaws) (Jwf_closed I' islat lle jm Hlaws Pk Hmk) sc' Htr Hlat' st st' HRwf Hcov Hrun)
    as [[Har' Hkey' Hwf' _] [Hrle [Hclosed [_ Hsta]]]].
  destruct (par_run_scc_exact I' Heq' islat lle jm Hlaws arities Hfun Hlat1 Pk Hna Hmk (Jwf I' islat lle)
              (Jwf_directed I' islat lle jm Hlaws) (Jwf_closed I' islat lle jm Hlaws Pk Hmk) sc' Htr Hlat' st st' HRwf Hpl Hst Hrun)
    as [Hpl' Hst'].
  change (s_dyn sc') with (s_dyn sc) in Hsta.
  split; [constructor; assumption|]. split; [exact Hsta|].
  split; [|split; [exact Hkey'|split; [exact Hpl'|split; [|split; [|split]]]]].
  - intros q Hq. apply Hsta. exact (aggs_static arities P sc Hok q Hq).
  - apply unique_directed; assumption.
  - apply (closed_back I vagg islat lle arities P K N HK sc Hok Hbelow A). exact Hclosed.
  - apply rle_dble. exact Hrle.
  - intros J HJd HJc HJin.
    assert (HRJ : rows_ok I' islat lle arities J A).
    { constructor; [exact Har | exact Hkey | exact Hwf |]. intros q row Hq. apply HJin. exact Hq. }
    destruct (par_run_scc_spec I' Heq' islat lle jm Hlaws arities Hfun Hlat1 Pk Hna Hmk J HJd
                (closed_tr I vagg islat lle arities P K N HK sc Hok Hbelow A J HJc) sc' Htr Hlat' st st' HRJ Hcov Hrun) as [[_ _ _ Hb] _].
    intros r t Ht. exact (Hb r t Ht).
Qed.

(* ... and every iteration start the parallel loop of the SCC can reach is an iteration start of the translated SCC's loop
   (what the no-deadlock theorem of LatParIter needs) *)
Lemma par_agg_reach_tr : forall (st : @lstate V) T2 D2 R2, AG st ->
  par_lat_agg_loop_reach I vagg islat jm sc (l_stored st) (fun _ => []) (fun r => if is_dyn (s_dyn sc) r then l_stored st r else []) (l_rows st) T2 D2 R2 ->
  par_lat_loop_reach (tr_interp I vagg islat P K (l_rows st)) islat jm sc' (l_stored st) (fun _ => [])
                     (fun r => if is_dyn (s_dyn sc) r then l_stored st r else []) (l_rows st) T2 D2 R2.
Proof.
  intros st T2 D2 R2 [Har Hkey Hwf Hpl Hst] Hreach.
  assert (HSt : forall q, is_dyn (s_dyn sc) q = false -> Permutation (l_stored st q) (seq 0 (length (l_rows st q)))).
  { intros q _. destruct (Hst q) as [Hnd Hin]. apply NoDup_Permutation; [exact Hnd | apply seq_NoDup|].
    intros i. rewrite in_seq. rewrite Hin. lia. }
  exact (proj1 (par_loop_reach_tr I Heq vagg Hperm islat jm arities P K N HK sc Hok Hbelow (l_stored st) (l_rows st) HSt Hpl
                  _ _ _ T2 D2 R2 Hreach (fun q _ => eq_refl))).
Qed.
End PAScc.

Print Assumptions par_run_scc_exact.
Print Assumptions par_agg_run_scc_spec.
