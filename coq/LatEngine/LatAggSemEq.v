(* C04 over lattices - the reduction of aggregation to generators, SEMANTIC side:
   a rule body with aggregates (LatAggSem.asat over the fixed rows A) and its translation
   (LatAggTrans.tr_rule, read under the interpretation tr_interp A by LatSem.sat) have the same satisfying
   environments up to the unused variable N; the heads evaluate alike; the translation of a monotone rule
   (LatAggSem.amono_rule) is monotone (LatSem.mono_rule). *)
From Coq Require Import List ZArith Bool Arith Lia.
From AV Require Import Engine.Core.
From AV Require Import Engine.Eval.
From AV Require Import Engine.Validate.
From AV Require Import LatEngine.LatSyntax.
From AV Require Import LatEngine.LatEval.
From AV Require Import LatEngine.LatEnv.
From AV Require Import LatEngine.LatSem.
From AV Require Import LatEngine.LatMono.
From AV Require Import LatEngine.LatAggEval.
From AV Require Import LatEngine.LatAggTrans.
From AV Require Import LatEngine.LatAggSem.
From AV Require Import LatEngine.LatAggKey.
Import ListNotations.
Local Open Scope nat_scope.

Section SemEq.
Context {V : Type}.
Variable I : linterp V.
Hypothesis Heq : veqb_ok I.
Variable vagg : nat -> list (list V) -> list V.
Variable islat : rel -> bool.
Variable lle : rel -> V -> V -> Prop.
Variable P : list rule.
Variable K : nat.
Variable N : var.
Variable A : rel -> list (vtuple V).

Notation I' := (tr_interp I vagg islat P K A).
Notation agree := (agree (V:=V) N).

(* ---------- tr_interp differs from I in vgen only ---------- *)
Lemma tr_veval_term : forall e t, veval_term I' e t = veval_term I e t.
Proof. intros e t. reflexivity. Qed.
Lemma tr_veval_terms : forall e ts, veval_terms I' e ts = veval_terms I e ts.
Proof. intros e ts. reflexivity. Qed.
Lemma tr_vsat_cond : forall e c, vsat_cond I' e c = vsat_cond I e c.
Proof. intros e c. reflexivity. Qed.
Lemma tr_vsat_conds : forall e cs, vsat_conds I' e cs = vsat_conds I e cs.
Proof. intros e cs. reflexivity. Qed.
Lemma tr_vmatch_args : forall e args t, vmatch_args I' e args t = vmatch_args I e args t.
Proof. intros e args t. reflexivity. Qed.
Lemma tr_veval_head : forall e h, veval_head I' e h = veval_head I e h.
Proof. intros e h. reflexivity. Qed.
Lemma tr_vgen_eq : forall g vs, vgen I' g vs = tr_vgen I vagg islat P K A g vs.
Proof. intros g vs. reflexivity. Qed.

(* ---------- matching under agreeing environments ---------- *)
Lemma vmatch_agree : forall args t e e', forallb (term_below N) args = true -> agree e e' ->
  orel N (vmatch_args I e args t) (vmatch_args I e' args t).
Proof.
  induction args as [|a args IH]; intros [|v t] e e' Hb H; cbn [vmatch_args]; try exact Logic.I.
  - exact H.
  - cbn [forallb] in Hb. apply andb_true_iff in Hb as [Ha Hb].
    destruct a as [x|c|f xs].
    + assert (Hx : x < N).
      { unfold term_below in Ha. apply (vars_below_In N _ x Ha). cbn [term_vars]. left. reflexivity. }
      rewrite <- (H x Hx). destruct (vlookup e x) as [w|].
      * destruct (veqb I w v); [apply IH; assumption | exact Logic.I].
      * apply IH; [exact Hb | apply agree_bind; exact H].
    + rewrite <- (agree_term I N e e' (TConst c) Ha H). destruct (veval_term I e (TConst c)) as [w|]; [|exact Logic.I].
      destruct (veqb I w v); [apply IH; assumption | exact Logic.I].
    + rewrite <- (agree_term I N e e' (TFun f xs) Ha H). destruct (veval_term I e (TFun f xs)) as [w|]; [|exact Logic.I].
      destruct (veqb I w v); [apply IH; assumption | exact Logic.I].
Qed.

Lemma akey_terms_below : forall args, forallb (aarg_below N) args = true -> forallb (term_below N) (akey_terms args) = true.
Proof.
  induction args as [|a args IH]; intros Hb; [reflexivity|].
  cbn [forallb] in Hb. apply andb_true_iff in Hb as [Ha Hb].
  unfold akey_terms. cbn [flat_map]. fold (akey_terms args).
  destruct a as [|x|t]; cbn [app]; try (apply IH; exact Hb).
  cbn [forallb aarg_below] in *. rewrite Ha, (IH Hb). reflexivity.
Qed.

Lemma akey_vars_eq : forall args, akey_vars args = flat_map term_vars (akey_terms args).
Proof. reflexivity. Qed.

Lemma agree_bind_out : forall p out v e e', agree e e' -> agree (vbind_out out v e) (vbind (outvar N p out) v e').
Proof.
  intros p [x|] v e e' H; cbn [vbind_out outvar].
  - apply agree_bind. exact H.
  - apply agree_bind_r; [lia | exact H].
Qed.

Lemma bitem_below_agg : forall out a bound r args, bitem_below N (BAgg out a bound r args) = true ->
  forallb (aarg_below N) args = true.
Proof. intros out a bound r args H. cbn [bitem_below] in H. apply andb_true_iff in H as [_ H]. exact H. Qed.

(* ---------- one rule ---------- *)
Section Rule.
Variable j : nat.
Variable ru : rule.
Hypothesis Hj : nth_error P j = Some ru.
Hypothesis HK : length (body ru) < K.

Definition suffix_at (p : nat) (items : list bitem) : Prop :=
  forall i b, nth_error items i = Some b -> nth_error (body ru) (p + i) = Some b.

Lemma suffix_head : forall p b items, suffix_at p (b :: items) -> nth_error (body ru) p = Some b /\ p < K.
Proof.
  intros p b items H. assert (Hp : nth_error (body ru) p = Some b).
  { specialize (H 0 b eq_refl). rewrite Nat.add_0_r in H. exact H. }
  split; [exact Hp|]. assert (p < length (body ru)) by (apply nth_error_Some; congruence). lia.
Qed.
Lemma suffix_tail : forall p b items, suffix_at p (b :: items) -> suffix_at (S p) items.
Proof.
  intros p b items H i c Hi. replace (S p + i) with (p + S i) by lia. apply H. exact Hi.
Qed.

Lemma sat_asat_gen : forall (DB : db) items p e' e2', suffix_at p items -> forallb (bitem_below N) items = true ->
  sat I' DB (tr_body K N j p items) e' e2' -> forall e, agree e e' ->
  exists e2, agree e2 e2' /\ asat I vagg islat A DB items e e2.
Proof.
  intros DB. induction items as [|b items IH]; intros p e' e2' Hsuf Hbel Hsat e Hag.
  - cbn [tr_body] in Hsat. inversion Hsat; subst. exists e. split; [exact Hag | constructor].
  - destruct (suffix_head _ _ _ Hsuf) as [Hp Hlt]. pose proof (suffix_tail _ _ _ Hsuf) as Hsuf'.
    cbn [forallb] in Hbel. apply andb_true_iff in Hbel as [Hb Hbel].
    cbn [tr_body] in Hsat. destruct b as [r args cs|c|x g xs|out a bound r args]; cbn [tr_bitem] in Hsat.
    + inversion Hsat as [|r0 args0 cs0 rest0 e0 t e1 e2 e3 Hdb Hm Hc Hrest| |]; subst.
      rewrite tr_vmatch_args in Hm. rewrite tr_vsat_conds in Hc.
      cbn [bitem_below] in Hb. apply andb_true_iff in Hb as [Hba Hbc].
      pose proof (vmatch_agree args t e e' Hba Hag) as Hm'. rewrite Hm in Hm'.
      destruct (vmatch_args I e args t) as [e1a|] eqn:Em; [|contradiction]. cbn [orel] in Hm'.
      pose proof (agree_conds I N cs e1a e1 Hbc Hm') as Hc'. rewrite Hc in Hc'.
      destruct (vsat_conds I e1a cs) as [e2a|] eqn:Ec; [|contradiction]. cbn [orel] in Hc'.
      destruct (IH (S p) e2 e2' Hsuf' Hbel Hrest e2a Hc') as [e3a [Hag3 Has]].
      exists e3a. split; [exact Hag3|]. eapply asat_clause; eauto.
    + inversion Hsat as [| |c0 rest0 e0 e1 e2 Hc Hrest|]; subst.
      rewrite tr_vsat_cond in Hc. cbn [bitem_below] in Hb.
      pose proof (agree_cond I N e e' c Hb Hag) as Hc'. rewrite Hc in Hc'.
      destruct (vsat_cond I e c) as [e1a|] eqn:Ec; [|contradiction]. cbn [orel] in Hc'.
      destruct (IH (S p) e1 e2' Hsuf' Hbel Hrest e1a Hc') as [e3a [Hag3 Has]].
      exists e3a. split; [exact Hag3|]. eapply asat_cond; eauto.
    + inversion Hsat as [| | |x0 g0 xs0 rest0 e0 vs v e2 Hv Hin Hrest]; subst.
      rewrite tr_vgen_eq in Hin. rewrite (tr_vgen_gen I vagg islat P K A j p ru x g xs vs Hj Hp Hlt) in Hin.
      cbn [bitem_below] in Hb. apply andb_true_iff in Hb as [_ Hbx].
      rewrite <- (agree_vars N e e' xs Hbx Hag) in Hv.
      destruct (IH (S p) _ e2' Hsuf' Hbel Hrest (vbind x v e) (agree_bind N e e' x v Hag)) as [e3a [Hag3 Has]].
      exists e3a. split; [exact Hag3|]. eapply asat_gen; eauto.
    + inversion Hsat as [| | |x0 g0 xs0 rest0 e0 vs v e2 Hv Hin Hrest]; subst.
      rewrite tr_vgen_eq in Hin. rewrite (tr_vgen_agg I vagg islat P K A j p ru out a bound r args vs Hj Hp Hlt) in Hin.
      unfold agg_result in Hin. rewrite akey_vars_eq in Hin, Hv.
      rewrite (vbinds_terms I (akey_terms args) vs e' Hv) in Hin.
      pose proof (akey_terms_below args (bitem_below_agg _ _ _ _ _ Hb)) as Hbt.
      rewrite <- (agree_terms I N e e' (akey_terms args) Hbt Hag) in Hin.
      destruct (veval_terms I e (akey_terms args)) as [key|] eqn:Ek; [|destruct Hin].
      destruct (IH (S p) _ e2' Hsuf' Hbel Hrest (vbind_out out v e) (agree_bind_out p out v e e' Hag)) as [e3a [Hag3 Has]].
      exists e3a. split; [exact Hag3|]. eapply asat_agg; eauto.
Qed.

Lemma asat_sat_gen : forall (DB : db) items e e2, asat I vagg islat A DB items e e2 ->
  forall p, suffix_at p items -> forallb (bitem_below N) items = true ->
  forall e', agree e e' ->
  exists e2', agree e2 e2' /\ sat I' DB (tr_body K N j p items) e' e2'.
Proof.
  intros DB items e e2 Has.
  induction Has as [e|r args cs rest e t e1 e2 e3 Hdb Hm Hc Hrest IH|c rest e e1 e2 Hc Hrest IH
                    |x g xs rest e vs v e2 Hv Hin Hrest IH|out a bound r args rest e key v e2 Hk Hin Hrest IH];
    intros p Hsuf Hbel e' Hag.
  - exists e'. split; [exact Hag|]. cbn [tr_body]. constructor.
  - destruct (suffix_head _ _ _ Hsuf) as [Hp Hlt]. pose proof (suffix_tail _ _ _ Hsuf) as Hsuf'.
    cbn [forallb] in Hbel. apply andb_true_iff in Hbel as [Hb Hbel].
    cbn [bitem_below] in Hb. apply andb_true_iff in Hb as [Hba Hbc].
    pose proof (vmatch_agree args t e e' Hba Hag) as Hm'. rewrite Hm in Hm'.
    destruct (vmatch_args I e' args t) as [e1a|] eqn:Em; [|contradiction]. cbn [orel] in Hm'.
    pose proof (agree_conds I N cs e1 e1a Hbc Hm') as Hc'. rewrite Hc in Hc'.
    destruct (vsat_conds I e1a cs) as [e2a|] eqn:Ec; [|contradiction]. cbn [orel] in Hc'.
    destruct (IH (S p) Hsuf' Hbel e2a Hc') as [e3a [Hag3 Hs]].
    exists e3a. split; [exact Hag3|]. cbn [tr_body tr_bitem]. eapply sat_clause; eauto.
  - destruct (suffix_head _ _ _ Hsuf) as [Hp Hlt]. pose proof (suffix_tail _ _ _ Hsuf) as Hsuf'.
    cbn [forallb] in Hbel. apply andb_true_iff in Hbel as [Hb Hbel]. cbn [bitem_below] in Hb.
    pose proof (agree_cond I N e e' c Hb Hag) as Hc'. rewrite Hc in Hc'.
    destruct (vsat_cond I e' c) as [e1a|] eqn:Ec; [|contradiction]. cbn [orel] in Hc'.
    destruct (IH (S p) Hsuf' Hbel e1a Hc') as [e3a [Hag3 Hs]].
    exists e3a. split; [exact Hag3|]. cbn [tr_body tr_bitem]. eapply sat_cond; eauto.
  - destruct (suffix_head _ _ _ Hsuf) as [Hp Hlt]. pose proof (suffix_tail _ _ _ Hsuf) as Hsuf'.
    cbn [forallb] in Hbel. apply andb_true_iff in Hbel as [Hb Hbel].
    cbn [bitem_below] in Hb. apply andb_true_iff in Hb as [_ Hbx].
    rewrite (agree_vars N e e' xs Hbx Hag) in Hv.
    destruct (IH (S p) Hsuf' Hbel (vbind x v e') (agree_bind N e e' x v Hag)) as [e3a [Hag3 Hs]].
    exists e3a. split; [exact Hag3|]. cbn [tr_body tr_bitem]. eapply sat_gen; [exact Hv| |exact Hs].
    rewrite tr_vgen_eq. rewrite (tr_vgen_gen I vagg islat P K A j p ru x g xs vs Hj Hp Hlt). exact Hin.
  - destruct (suffix_head _ _ _ Hsuf) as [Hp Hlt]. pose proof (suffix_tail _ _ _ Hsuf) as Hsuf'.
    cbn [forallb] in Hbel. apply andb_true_iff in Hbel as [Hb Hbel].
    pose proof (akey_terms_below args (bitem_below_agg _ _ _ _ _ Hb)) as Hbt.
    rewrite (agree_terms I N e e' (akey_terms args) Hbt Hag) in Hk.
    destruct (proj1 (veval_terms_some_vars I e' (akey_terms args)) (ex_intro _ key Hk)) as [vs Hv].
    destruct (IH (S p) Hsuf' Hbel (vbind (outvar N p out) v e') (agree_bind_out p out v e e' Hag)) as [e3a [Hag3 Hs]].
    exists e3a. split; [exact Hag3|]. cbn [tr_body tr_bitem]. eapply sat_gen; [rewrite akey_vars_eq; exact Hv| |exact Hs].
    rewrite tr_vgen_eq. rewrite (tr_vgen_agg I vagg islat P K A j p ru out a bound r args vs Hj Hp Hlt).
    unfold agg_result. rewrite akey_vars_eq. rewrite (vbinds_terms I (akey_terms args) vs e' Hv). rewrite Hk. exact Hin.
Qed.

Lemma suffix_whole : suffix_at 0 (body ru).
Proof. intros i b H. exact H. Qed.

Lemma tr_mono_body : forall (G : vorder), (forall x a, N <= x -> G x a a) ->
  forall items p, suffix_at p items -> Forall (amono_item I islat lle G) items ->
  Forall (mono_item I' islat lle G) (tr_body K N j p items).
Proof.
  intros G HG. induction items as [|b items IH]; intros p Hsuf Hmono; cbn [tr_body]; [constructor|].
  destruct (suffix_head _ _ _ Hsuf) as [Hp Hlt]. pose proof (suffix_tail _ _ _ Hsuf) as Hsuf'.
  inversion Hmono as [|b0 items0 Hb Hrest]; subst. constructor; [|apply IH; assumption].
  destruct b as [r args cs|c|x g xs|out a bound r args]; cbn [tr_bitem mono_item amono_item] in *.
  - exact Hb.
  - exact Hb.
  - intros e e' vs v Hele Hv Hin.
    rewrite tr_vgen_eq in Hin. rewrite (tr_vgen_gen I vagg islat P K A j p ru x g xs vs Hj Hp Hlt) in Hin.
    destruct (Hb e e' vs v Hele Hv Hin) as [vs' [v' [Hv' [Hin' Hg]]]].
    exists vs', v'. split; [exact Hv'|]. split; [|exact Hg].
    rewrite tr_vgen_eq. rewrite (tr_vgen_gen I vagg islat P K A j p ru x g xs vs' Hj Hp Hlt). exact Hin'.
  - destruct Hb as [Hplain Hout]. intros e e' vs v Hele Hv Hin.
    assert (Hpv : forall x, In x (akey_vars args) -> plain_var G x).
    { intros x Hx. rewrite akey_vars_eq in Hx. apply in_flat_map in Hx as [t [Ht Hx]].
      rewrite Forall_forall in Hplain. exact (Hplain t Ht x Hx). }
    exists vs, v. split; [rewrite <- (ele_plain_vars G e e' (akey_vars args) Hele Hpv); exact Hv|].
    split; [exact Hin|].
    destruct out as [x|]; cbn [outvar].
    + apply plain_refl. apply Hout. reflexivity.
    + apply HG. lia.
Qed.
End Rule.

(* ---------- the four statements ---------- *)
Lemma sat_asat : forall j ru (DB : db), nth_error P j = Some ru -> length (body ru) < K -> rule_below N ru = true ->
  forall e' e2', sat I' DB (body (tr_rule K N j ru)) e' e2' -> forall e, agree e e' ->
  exists e2, agree e2 e2' /\ asat I vagg islat A DB (body ru) e e2.
Proof.
  intros j ru DB Hj HK Hb e' e2' Hsat e Hag. unfold rule_below in Hb. apply andb_true_iff in Hb as [Hb _].
  cbn [tr_rule body] in Hsat.
  exact (sat_asat_gen j ru Hj HK DB (body ru) 0 e' e2' (suffix_whole ru) Hb Hsat e Hag).
Qed.

Lemma asat_sat : forall j ru (DB : db), nth_error P j = Some ru -> length (body ru) < K -> rule_below N ru = true ->
  forall e e2, asat I vagg islat A DB (body ru) e e2 -> forall e', agree e e' ->
  exists e2', agree e2 e2' /\ sat I' DB (body (tr_rule K N j ru)) e' e2'.
Proof.
  intros j ru DB Hj HK Hb e e2 Has e' Hag. unfold rule_below in Hb. apply andb_true_iff in Hb as [Hb _].
  cbn [tr_rule body].
  exact (asat_sat_gen j ru Hj HK DB (body ru) e e2 Has 0 (suffix_whole ru) Hb e' Hag).
Qed.

Lemma head_agree : forall ru h (e e' : venv V), rule_below N ru = true -> In h (heads ru) -> agree e e' ->
  veval_head I e h = veval_head I' e' h.
Proof.
  intros ru h e e' Hb Hh Hag. unfold rule_below in Hb. apply andb_true_iff in Hb as [_ Hb].
  rewrite forallb_forall in Hb. rewrite tr_veval_head. apply (agree_head I N); [apply Hb; exact Hh | exact Hag].
Qed.

Lemma tr_mono_rule : forall j ru (G : vorder), nth_error P j = Some ru -> length (body ru) < K -> rule_below N ru = true ->
  amono_rule I islat lle G ru -> (forall x a, N <= x -> G x a a) ->
  mono_rule I' islat lle G (tr_rule K N j ru).
Proof.
  intros j ru G Hj HK Hb [Hdom [Hbody Hheads]] HG. split; [exact Hdom|]. split.
  - cbn [tr_rule body]. exact (tr_mono_body j ru Hj HK G HG (body ru) 0 (suffix_whole ru) Hbody).
  - cbn [tr_rule heads]. exact Hheads.
Qed.
End SemEq.

Print Assumptions sat_asat.
Print Assumptions asat_sat.
Print Assumptions head_agree.
Print Assumptions tr_mono_rule.
