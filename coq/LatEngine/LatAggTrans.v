(* C04 over lattices - the REDUCTION of aggregation to generators (definitions).

   Inside one SCC the aggregated relations are static (Engine/Validate.v: their producers run in strictly
   earlier SCCs), so an aggregate item behaves like a generator `for x in g(key variables)` whose symbol g
   is interpreted as "the aggregator applied to the fixed rows A of the aggregated relation".

   Symbols are positional: the generator standing at position p of the body of rule j gets the symbol
   j * K + p (K exceeds every body length); the interpretation [tr_interp A] decodes the symbol, looks the
   item up in the SOURCE program and interprets an original generator by the original interpretation and an
   aggregate by [agg_result A].  An aggregate without output pattern (negation) at position p binds the
   variable N + p, which no rule uses (N exceeds every variable of the program).  Nothing here is specific to one SCC except the rows A. *)
From Coq Require Import List ZArith Bool Arith.
From AV Require Import Engine.Core.
From AV Require Import Engine.Eval.
From AV Require Import Engine.Validate.
From AV Require Import LatEngine.LatSyntax.
From AV Require Import LatEngine.LatEval.
From AV Require Import LatEngine.LatAggEval.
Import ListNotations.
Local Open Scope nat_scope.

(* positions of the key arguments of an aggregated clause (the index the generated code uses: check_agg) *)
Definition keypos (args : list aarg) : list nat :=
  map fst (filter (fun p => match snd p with AKey _ => true | _ => false end) (combine (seq 0 (length args)) args)).
Definition akey_terms (args : list aarg) : list term :=
  flat_map (fun a => match a with AKey t => [t] | _ => [] end) args.
Definition akey_vars (args : list aarg) : list var := flat_map term_vars (akey_terms args).

Section Trans.
Context {V : Type}.
Variable I : linterp V.
Variable vagg : nat -> list (list V) -> list V.
Variable islat : rel -> bool.
Variable P : list rule.
Variable K : nat.
Variable N : var.

(* the variable bound by the generator standing for an aggregate at position p: an aggregate without output pattern
   (negation) binds the unused variable N + p (distinct positions: distinct variables) *)
Definition outvar (p : nat) (out : option var) : var := match out with Some x => x | None => N + p end.

(* ---------- syntax ---------- *)
Definition tr_bitem (j p : nat) (b : bitem) : bitem :=
  match b with
  | BAgg out _ _ _ args => BGen (outvar p out) (j * K + p) (akey_vars args)
  | BGen x _ xs => BGen x (j * K + p) xs
  | _ => b
  end.
Fixpoint tr_body (j p : nat) (l : list bitem) : list bitem :=
  match l with [] => [] | b :: l' => tr_bitem j p b :: tr_body j (S p) l' end.
Definition tr_rule (j : nat) (ru : rule) : rule := {| heads := heads ru; body := tr_body j 0 (body ru) |}.
Fixpoint tr_rules (j : nat) (l : list rule) : list rule :=
  match l with [] => [] | ru :: l' => tr_rule j ru :: tr_rules (S j) l' end.
Definition tr_prog : list rule := tr_rules 0 P.

Definition tr_pitem (j p : nat) (it : pitem) : pitem :=
  match it with
  | PAgg out _ _ _ args _ => PGen (outvar p out) (j * K + p) (akey_vars args)
  | PGen x _ xs => PGen x (j * K + p) xs
  | _ => it
  end.
Fixpoint tr_pitems (j p : nat) (l : list pitem) : list pitem :=
  match l with [] => [] | it :: l' => tr_pitem j p it :: tr_pitems j (S p) l' end.
Definition tr_variant (v : variant) : variant :=
  {| v_rule := v_rule v; v_heads := v_heads v; v_items := tr_pitems (v_rule v) 0 (v_items v);
     v_sj := v_sj v; v_reord := v_reord v |}.
Definition tr_scc (sc : pscc) : pscc :=
  {| s_vars := map tr_variant (s_vars sc); s_dyn := s_dyn sc; s_loop := s_loop sc |}.

(* the program seen by one SCC: its own (translated) rules, every other rule replaced by a rule deriving nothing *)
Definition null_rule : rule := {| heads := []; body := [] |}.
Definition scc_prog (sc : pscc) : list rule :=
  map (fun j => if existsb (Nat.eqb j) (rules_of_scc sc)
                then match nth_error tr_prog j with Some ru => ru | None => null_rule end
                else null_rule) (seq 0 (length P)).

(* ---------- interpretation ---------- *)
(* the rows an aggregate ranges over: the rows of A r whose key columns carry the key; each row ONCE
   (a lattice relation holds one row per key; a plain relation is a set) *)
Definition spec_rows (A : rel -> list (vtuple V)) (r : rel) (args : list aarg) (key : list V) : list (vtuple V) :=
  let m := filter (fun row => vlist_eqb I (vproj I (keypos args) row) key) (A r) in
  if islat r then m else vdedup I m.

(* the values of `agg <out> = a(bound) in r(args)` under e (None: a key expression is unbound) *)
Definition agg_result (A : rel -> list (vtuple V)) (e : venv V) (a : nat) (bound : list var) (r : rel) (args : list aarg)
  : option (list V) :=
  match veval_terms I e (akey_terms args) with
  | Some key => Some (vagg a (map (vagg_input bound args) (spec_rows A r args key)))
  | None => None
  end.

Fixpoint vbinds (xs : list var) (vs : list V) (e : venv V) : venv V :=
  match xs, vs with x :: xs', v :: vs' => vbinds xs' vs' (vbind x v e) | _, _ => e end.

Definition tr_vgen (A : rel -> list (vtuple V)) (g : nat) (vs : list V) : list V :=
  match nth_error P (g / K) with
  | Some ru =>
      match nth_error (body ru) (g mod K) with
      | Some (BGen _ g0 _) => vgen I g0 vs
      | Some (BAgg _ a bound r args) =>
          match agg_result A (vbinds (akey_vars args) vs []) a bound r args with Some l => l | None => [] end
      | _ => []
      end
  | None => []
  end.

Definition tr_interp (A : rel -> list (vtuple V)) : linterp V :=
  {| vconst := vconst I; vfun := vfun I; vpred := vpred I; vpart := vpart I; vgen := tr_vgen A; veqb := veqb I |}.

(* environments that agree on the variables of the program (< N) *)
Definition agree (e e' : venv V) : Prop := forall x, x < N -> vlookup e x = vlookup e' x.
End Trans.

(* ---------- boolean side conditions (checked on every dumped plan by the tie) ---------- *)
Definition vars_below (N : nat) (xs : list var) : bool := forallb (fun x => Nat.ltb x N) xs.
Definition term_below (N : nat) (t : term) : bool := vars_below N (term_vars t).
Definition cond_below (N : nat) (c : cond) : bool :=
  match c with CIf _ xs => vars_below N xs | CBind x _ xs => Nat.ltb x N && vars_below N xs end.
Definition aarg_below (N : nat) (a : aarg) : bool :=
  match a with AKey t => term_below N t | ABound x => Nat.ltb x N | AWild => true end.
Definition pitem_below (N : nat) (it : pitem) : bool :=
  match it with
  | PClause _ args cs _ _ => forallb (term_below N) args && forallb (cond_below N) cs
  | PCond c => cond_below N c
  | PGen x _ xs => Nat.ltb x N && vars_below N xs
  | PAgg out _ bound _ args _ =>
      match out with Some x => Nat.ltb x N | None => true end && vars_below N bound && forallb (aarg_below N) args
  end.
(* an aggregate is looked up through the index on its key positions (implied by validate: check_agg) *)
Definition pitem_keypos (it : pitem) : bool :=
  match it with PAgg _ _ _ _ args idx => nats_eqb (keypos args) idx | _ => true end.
Definition variant_below (N : nat) (v : variant) : bool :=
  forallb (fun it => pitem_below N it && pitem_keypos it) (v_items v)
  && forallb (fun h => forallb (term_below N) (snd h)) (v_heads v).
Definition plan_below (N : nat) (pl : plan) : bool :=
  forallb (fun sc => forallb (variant_below N) (s_vars sc)) pl.
Definition bitem_below (N : nat) (b : bitem) : bool :=
  match b with
  | BClause _ args cs => forallb (term_below N) args && forallb (cond_below N) cs
  | BCond c => cond_below N c
  | BGen x _ xs => Nat.ltb x N && vars_below N xs
  | BAgg out _ bound _ args =>
      match out with Some x => Nat.ltb x N | None => true end && vars_below N bound && forallb (aarg_below N) args
  end.
Definition rule_below (N : nat) (ru : rule) : bool :=
  forallb (bitem_below N) (body ru) && forallb (fun h => forallb (term_below N) (snd h)) (heads ru).
Definition body_bound (K : nat) (P : list rule) : bool := forallb (fun ru => Nat.ltb (length (body ru)) K) P.

(* the translated SCCs are accepted by the validator's per-SCC check over their own programs *)
Definition tr_plan_ok (arities : list (rel * nat)) (P : list rule) (K : nat) (N : var) (pl : plan) : bool :=
  forallb (fun sc => scc_ok arities (scc_prog P K N sc) (tr_scc K N sc)) pl.
