(* C03 - the extra plan check of the lattice engine model (run on every dumped plan, next to
   Engine/Validate.v validate): no clause on a lattice relation is indexed on the lattice column (the last
   one) -- the generated head code never updates an index containing that column, and the model reads
   indices through the CURRENT key of a row --, lattice relations have at least one column, and there is no
   aggregation (C04's subject). *)
From Coq Require Import List Bool Arith.
From AV Require Import Engine.Core.
From AV Require Import Engine.Eval.
Import ListNotations.

Definition lat_item_ok (islat : rel -> bool) (p : pitem) : bool :=
  match p with
  | PClause r args _ idx _ => negb (islat r) || forallb (fun i => Nat.ltb (S i) (length args)) idx
  | PAgg _ _ _ _ _ _ => false
  | _ => true
  end.

Definition lat_variant_ok (islat : rel -> bool) (v : variant) : bool := forallb (lat_item_ok islat) (v_items v).

Definition lat_plan_ok (islat : rel -> bool) (arities : list (rel * nat)) (pl : plan) : bool :=
  forallb (fun sc => forallb (lat_variant_ok islat) (s_vars sc)) pl
  && forallb (fun p => negb (islat (fst p)) || Nat.ltb 0 (snd p)) arities.
