(* B13 - executable model of the SERIAL generated code for programs mixing relations and lattices (with
   aggregation / negation) in which every PHYSICAL INDEX OF A LATTICE RELATION has its own content.

   LatEval.v / LatAggEval.v keep one set of row numbers per relation and version and read every index of a lattice
   relation as a VIEW (the row numbers whose row CURRENTLY has the key on the index columns).  Here a lattice relation
   has, per version (stored field; total / delta / new inside an SCC), one map per index the macro plans for it
   (ascent_hir.rs compile_ascent_program_to_hir: the clause / aggregate indices, the all-columns index and the KEY
   index = all columns but the last; IndexValType::Reference for all of them):

     LatticeIndexType<K, usize>  = HashMap<K, HashSet<usize>>    key -> set of ROW NUMBERS      (xk = false)
     RelFullIndexType<K, usize>  = HashMap<K, usize>             key -> one row number          (xk = true: the key index)

   and the generated code paths write / read each of them separately, as ascent_macro/src/ascent_codegen.rs does:

     compile_update_indices_function_body   every index field := Default; for every row number i, in every index:
                                            index_insert(columns of the row, i)     (HashMap::insert OVERWRITES in the key index)
     compile_mir_scc                        dynamic relations: delta := take(field), total := new := Default; body-only
                                            relations: total := take(field); per index merge_delta_to_total_new_to_delta
                                            (move_index_contents: set.extend per key / HashMap::insert per key); field := total
     head_update_code, lattice branch       __lattice_key = all columns but the last of the DERIVED tuple __new_row;
                                            key index of new, else of delta, else of total: index_get(&__lattice_key);
                                            found row number i: join_mut IN PLACE on rows[i].last; if it reports a change:
                                            for every index of `new` EXCEPT the all-columns one (is_full_index: `continue`):
                                            index_insert(columns of __new_row - the DERIVED tuple, not the joined row -, i);
                                            NOTHING is removed: the entry made under the old value stays;
                                            not found: the same insertions with i = rows.len(), push
     compile_mir_rule_inner, clause         index_get(key) on the clause's OWN index: row numbers; for each, the row is read
                                            NOW (`&_self.rel[*__val]` cloned), the variables the clause binds are assigned from
                                            it; the index columns are NOT re-tested
     compile_mir_rule_inner, simple join    first clause: iter_all over ITS OWN index: its variables on the index columns are
                                            assigned from the STORED KEY, the others from the row read now
     compile_mir_rule_inner, Agg            index_get(key) on the TOTAL version of the aggregate's own index, rows read now,
                                            no re-test

   so an index whose columns include the lattice column goes stale when a row is raised (LatIndexedFinding.v), and an
   index over key columns only lists exactly the row numbers whose key projection matches (LatIndexedRefine.v).

   PLAIN relations are kept exactly as in LatEval.v / LatAggEval.v (one set of row numbers per relation and version, their
   indices store column values and their rows never change; the per-index engine of plain relations is
   Engine/IndexedEval.v), and so is everything that is not an access to an index of a lattice relation (the definitions
   are reused, not copied; the evaluators are prefixed with `x`).

   Iteration order.  A map is modelled by its entries in insertion order; the order in which a HashSet of row numbers
   (an index_get / an iter_all) is iterated is, as in LatEval.v, the oracle [shuffle tick U] applied to U = the row
   numbers held by the KEY index of the relation in the version(s) read, RESTRICTED to the row numbers the physical index
   lists under the key (every sequence over that set is reachable by some oracle); row numbers the index lists that U
   lacks (none, as long as the key index is intact) follow in stored order.  The len_estimate comparison of a
   reorderable simple join is the oracle [swap_oracle] applied to the same U.  No proofs in this file. *)
From Coq Require Import List ZArith Bool Arith.
From AV Require Import Engine.Core.
From AV Require Import Engine.Eval.
From AV Require Import LatEngine.LatSyntax.
From AV Require Import LatEngine.LatEval.
From AV Require Import LatEngine.LatAggEval.
Import ListNotations.

Fixpoint ncols_eqb (a b : list nat) : bool :=
  match a, b with [], [] => true | x :: a', y :: b' => Nat.eqb x y && ncols_eqb a' b' | _, _ => false end.

Section LatIndexedEval.
Context {V : Type}.
Variable I : linterp V.
Variable vagg : nat -> list (list V) -> list V.
Variable islat : rel -> bool.
Variable jm : rel -> V -> V -> V * bool.
Variable shuffle : nat -> list nat -> list nat.
Variable ashuffle : nat -> list nat -> list nat.
Variable swap_oracle : nat -> list nat -> list nat -> bool.

(* ---------- one physical index of a lattice relation ---------- *)
Definition ents := list (list V * list nat).                   (* key -> row numbers, entries in insertion order *)

(* HashMap::get *)
Fixpoint e_get (key : list V) (es : ents) : list nat :=
  match es with
  | [] => []
  | kl :: es' => if vlist_eqb I (fst kl) key then snd kl else e_get key es'
  end.
(* index_insert: ow = true HashMap::insert(key, i) (the key index), ow = false entry(key).or_default().insert(i) *)
Fixpoint e_ins (ow : bool) (key : list V) (i : nat) (es : ents) : ents :=
  match es with
  | [] => [(key, [i])]
  | kl :: es' => if vlist_eqb I (fst kl) key then (fst kl, if ow then [i] else nadd i (snd kl)) :: es'
                 else kl :: e_ins ow key i es'
  end.
Definition e_vals (es : ents) : list nat := flat_map snd es.                                   (* every row number listed *)
Definition e_pairs (es : ents) : list (list V * nat) := flat_map (fun kl => map (pair (fst kl)) (snd kl)) es.   (* iter_all *)
(* move_index_contents(from, to); the swap-on-size of the key index changes only the iteration order *)
Definition e_move (ow : bool) (from to : ents) : ents :=
  fold_left (fun acc kl => fold_left (fun acc i => e_ins ow (fst kl) i acc) (snd kl) acc) from to.

Record xidx := { xc : list nat; xk : bool; xe : ents }.         (* index columns; is it the key index; content *)
Definition xclear (x : xidx) : xidx := {| xc := xc x; xk := xk x; xe := [] |}.

(* the indices of one relation in one version *)
Definition xents (st : list xidx) (cols : list nat) : ents :=
  match find (fun x => ncols_eqb (xc x) cols) st with Some x => xe x | None => [] end.
Definition kidx (st : list xidx) : ents := match find xk st with Some x => xe x | None => [] end.
Definition kget (st : list xidx) (key : list V) : option nat := hd_error (e_get key (kidx st)).

(* insertion of row number i for the tuple t into every index (update_indices) / every index but the all-columns one
   (head update): the key is made of the index columns of t *)
Definition xins (t : vtuple V) (i : nat) (x : xidx) : xidx :=
  {| xc := xc x; xk := xk x; xe := e_ins (xk x) (vproj I (xc x) t) i (xe x) |}.
Definition xins_new (t : vtuple V) (i : nat) (x : xidx) : xidx :=
  if Nat.eqb (length (xc x)) (length t) then x else xins t i x.

Definition xmerge_ix (t d : xidx) : xidx := {| xc := xc t; xk := xk t; xe := e_move (xk t) (xe d) (xe t) |}.
Definition xmerge (XT XD : rel -> list xidx) : rel -> list xidx :=
  fun r => map (fun p => xmerge_ix (fst p) (snd p)) (combine (XT r) (XD r)).

(* the key columns of the row replaced by the stored key (first clause of a simple join) *)
Fixpoint overlay (cols : list nat) (key : list V) (row : vtuple V) : vtuple V :=
  match cols, key with
  | c :: cols', v :: key' => overlay cols' key' (set_nth c v row)
  | _, _ => row
  end.

Fixpoint kdedup (ks : list (list V)) : list (list V) :=
  match ks with
  | [] => []
  | k :: ks' => if existsb (vlist_eqb I k) ks' then kdedup ks' else k :: kdedup ks'
  end.

(* order of iteration: see the header *)
Definition xorder (sh U content : list nat) : list nat :=
  filter (fun i => nmem i content) sh ++ filter (fun i => negb (nmem i U)) content.
Definition keys_of (i : nat) (pairs : list (list V * nat)) : list (list V) :=
  kdedup (map fst (filter (fun p => Nat.eqb (snd p) i) pairs)).
Definition xorder_all (sh U : list nat) (pairs : list (list V * nat)) : list (list V * nat) :=
  flat_map (fun i => map (fun k => (k, i)) (keys_of i pairs)) sh ++ filter (fun p => negb (nmem (snd p) U)) pairs.

(* state inside one evaluation of the rules of an SCC: LatEval's (rows of every relation; the `new` row numbers of the
   PLAIN relations; __changed; tick) and the `new` indices of the lattice relations *)
Record xstate := { x_s : @istate V; x_new : rel -> list xidx }.
Definition xtick (s : xstate) : xstate := {| x_s := tick (x_s s); x_new := x_new s |}.
Definition xrows (s : xstate) (r : rel) : list (vtuple V) := i_rows (x_s s) r.
Definition xtk (s : xstate) : nat := i_tick (x_s s).

Section Iter.
Variable dyn : list rel.
Variables St T D : rel -> list nat.          (* plain relations: as in LatEval.v *)
Variables XS XT XD : rel -> list xidx.       (* lattice relations: stored indices of the body-only ones; total and delta of the dynamic ones *)

Notation vrows := (vrows dyn St T D).

(* the physical versions a clause reads: total / delta / RelIndexCombined(total, delta); a body-only relation has its stored field *)
Definition xver (r : rel) (v : version) : list (list xidx) :=
  if is_dyn dyn r then match v with VTotal => [XT r] | VDelta => [XD r] | VTotalDelta => [XT r; XD r] end
  else [XS r].
Definition xget (r : rel) (cols : list nat) (v : version) (key : list V) : list nat :=
  flat_map (fun st => e_get key (xents st cols)) (xver r v).
Definition xall (r : rel) (cols : list nat) (v : version) : list (list V * nat) :=
  flat_map (fun st => e_pairs (xents st cols)) (xver r v).
Definition xU (r : rel) (v : version) : list nat := flat_map (fun st => e_vals (kidx st)) (xver r v).
Definition urows (r : rel) (v : version) : list nat := if islat r then xU r v else vrows r v.

(* ---------- head update (head_update_code) ---------- *)
Definition xset_rows (s : xstate) (r : rel) (R' : list (vtuple V)) (ch : bool) : @istate V :=
  {| i_rows := upd (i_rows (x_s s)) r R'; i_new := i_new (x_s s); i_changed := ch; i_tick := i_tick (x_s s) |}.

Definition xhead_update (s : xstate) (f : vfact V) : xstate :=
  let r := fst f in
  let t := snd f in
  let R := xrows s r in
  if islat r then
    match orelse (kget (x_new s r) (tkey t)) (orelse (kget (XD r) (tkey t)) (kget (XT r) (tkey t))) with
    | Some i =>
        match nth_error R i with
        | Some row =>
            let (v', ch) := jm r (tval I row) (tval I t) in
            let R' := set_nth i (tkey row ++ [v']) R in
            if ch then {| x_s := xset_rows s r R' true; x_new := upd (x_new s) r (map (xins_new t i) (x_new s r)) |}
            else {| x_s := xset_rows s r R' (i_changed (x_s s)); x_new := x_new s |}
        | None => s                           (* a row number beyond the rows: the generated code would panic *)
        end
    | None => {| x_s := xset_rows s r (R ++ [t]) true; x_new := upd (x_new s) r (map (xins_new t (length R)) (x_new s r)) |}
    end
  else {| x_s := head_update I islat jm T D (x_s s) f; x_new := x_new s |}.

Definition xheads_update (hs : list (rel * list term)) (e : venv V) (s : xstate) : xstate :=
  fold_left (fun s h => match veval_head I e h with Some f => xhead_update s f | None => s end) hs s.

(* ---------- rule bodies (compile_mir_rule_inner) ---------- *)
(* a row number returned by an index of a lattice relation: the row is read now, no re-test *)
Definition xstep (k : venv V -> xstate -> xstate) (e : venv V) (r : rel) (args : list term) (cs : list cond)
           (s : xstate) (i : nat) : xstate :=
  match nth_error (xrows s r) i with
  | None => s
  | Some row => match vsat_conds I (vbind_new e args row) cs with Some e2 => k e2 s | None => s end
  end.
(* an entry (stored key, row number) of iter_all: the index columns come from the key *)
Definition xstep_all (k : venv V -> xstate -> xstate) (e : venv V) (r : rel) (args : list term) (cs : list cond) (cols : list nat)
           (s : xstate) (p : list V * nat) : xstate :=
  match nth_error (xrows s r) (snd p) with
  | None => s
  | Some row => match vsat_conds I (vbind_new e args (overlay cols (fst p) row)) cs with Some e2 => k e2 s | None => s end
  end.
(* a plain relation: LatEval.clause_step *)
Definition pstep (k : venv V -> xstate -> xstate) (e : venv V) (r : rel) (args : list term) (cs : list cond)
           (idx : list nat) (key : list V) (s : xstate) (i : nat) : xstate :=
  match nth_error (xrows s r) i with
  | None => s
  | Some row =>
      if vlist_eqb I (vproj I idx row) key then
        match vsat_conds I (vbind_new e args row) cs with Some e2 => k e2 s | None => s end
      else s
  end.

Definition xeval_clause (k : venv V -> xstate -> xstate) (e : venv V) r args cs idx ver (s : xstate) : xstate :=
  match veval_key I e args idx with
  | None => s
  | Some key =>
      if islat r then
        fold_left (xstep k e r args cs) (xorder (shuffle (xtk s) (xU r ver)) (xU r ver) (xget r idx ver key)) (xtick s)
      else fold_left (pstep k e r args cs idx key) (shuffle (xtk s) (vrows r ver)) (xtick s)
  end.

(* the first clause of a simple join: iter_all over the clause's own index *)
Definition xeval_clause_all (k : venv V -> xstate -> xstate) (e : venv V) r args cs idx ver (s : xstate) : xstate :=
  if islat r then
    fold_left (xstep_all k e r args cs idx) (xorder_all (shuffle (xtk s) (xU r ver)) (xU r ver) (xall r idx ver)) (xtick s)
  else fold_left (pstep k e r args cs [] []) (shuffle (xtk s) (vrows r ver)) (xtick s).

(* the rows an aggregate over a lattice relation receives *)
Definition xagg_rows (s : xstate) (r : rel) (idx : list nat) (key : list V) : list (vtuple V) :=
  let U := xU r VTotal in
  filter_map (fun i => nth_error (xrows s r) i) (xorder (ashuffle (xtk s) U) U (xget r idx VTotal key)).

Definition xagg_values (e : venv V) (s : xstate) (a : nat) (bound : list var) (r : rel) (args : list aarg) (idx : list nat)
  : option (list V) :=
  match vagg_key I e args idx with
  | None => None
  | Some key =>
      let rows := if islat r then xagg_rows s r idx key
                  else agg_rows I (length args) false (xrows s r) idx key (ashuffle (xtk s) (vrows r VTotal)) in
      Some (vagg a (map (vagg_input bound args) rows))
  end.

Fixpoint xeval_items (items : list pitem) (k : venv V -> xstate -> xstate) (e : venv V) (s : xstate) : xstate :=
  match items with
  | [] => k e s
  | PClause r args cs idx ver :: rest => xeval_clause (xeval_items rest k) e r args cs idx ver s
  | PCond c :: rest => match vsat_cond I e c with Some e' => xeval_items rest k e' s | None => s end
  | PGen x g xs :: rest =>
      match veval_vars e xs with
      | Some vs => fold_left (fun s v => xeval_items rest k (vbind x v e) s) (vgen I g vs) s
      | None => s end
  | PAgg out a bound r args idx :: rest =>
      match xagg_values e s a bound r args idx with
      | Some vals => fold_left (fun s v => xeval_items rest k (vbind_out out v e) s) vals s
      | None => s end
  end.

Definition xeval_simple_join (items : list pitem) (reord : bool) (k : venv V -> xstate -> xstate) (e : venv V) (s : xstate) : xstate :=
  match items with
  | PClause r1 a1 c1 i1 v1 :: PClause r2 a2 c2 i2 v2 :: rest =>
      if reord && negb (swap_oracle (xtk s) (urows r1 v1) (urows r2 v2)) then
        xeval_clause_all (fun e1 => xeval_clause (xeval_items rest k) e1 r1 a1 c1 i1 v1) e r2 a2 c2 i2 v2 s
      else
        xeval_clause_all (fun e1 => xeval_clause (xeval_items rest k) e1 r2 a2 c2 i2 v2) e r1 a1 c1 i1 v1 s
  | _ => xeval_items items k e s
  end.

Fixpoint xeval_from (items : list pitem) (sj : option nat) (reord : bool) (k : venv V -> xstate -> xstate) (e : venv V) (s : xstate) : xstate :=
  match sj with
  | None => xeval_items items k e s
  | Some O => xeval_simple_join items reord k e s
  | Some (S n) =>
      match items with
      | [] => k e s
      | PCond c :: rest => match vsat_cond I e c with Some e' => xeval_from rest (Some n) reord k e' s | None => s end
      | PGen x g xs :: rest =>
          match veval_vars e xs with
          | Some vs => fold_left (fun s v => xeval_from rest (Some n) reord k (vbind x v e) s) (vgen I g vs) s
          | None => s end
      | PAgg out a bound r args idx :: rest =>
          match xagg_values e s a bound r args idx with
          | Some vals => fold_left (fun s v => xeval_from rest (Some n) reord k (vbind_out out v e) s) vals s
          | None => s end
      | PClause r args cs idx ver :: rest =>
          xeval_clause (xeval_from rest (Some n) reord k) e r args cs idx ver s
      end
  end.

(* is_empty of the clause's own index (an entry's set is never empty: index_insert always inserts) *)
Definition xclause_empty (p : pitem) : bool :=
  match p with
  | PClause r _ _ idx ver =>
      if islat r then match xall r idx ver with [] => true | _ => false end
      else match vrows r ver with [] => true | _ => false end
  | _ => false
  end.

Definition xeval_variant (s : xstate) (v : variant) : xstate :=
  let ncl := length (filter is_clause (v_items v)) in
  let can_help := Nat.ltb 1 ncl && negb (match v_sj v with Some _ => Nat.eqb ncl 2 | None => false end) in
  if can_help && existsb xclause_empty (v_items v) then s
  else xeval_from (v_items v) (v_sj v) (v_reord v) (xheads_update (v_heads v)) [] s.

Definition xscc_iteration (sc : pscc) (R : rel -> list (vtuple V)) (tk : nat) : xstate :=
  fold_left xeval_variant (s_vars sc)
            {| x_s := {| i_rows := R; i_new := fun _ => []; i_changed := false; i_tick := tk |};
               x_new := fun r => map xclear (XT r) |}.
End Iter.

Record xloop_out := { xo_T : rel -> list nat; xo_XT : rel -> list xidx; xo_rows : rel -> list (vtuple V); xo_tick : nat }.

Fixpoint xscc_loop (fuel : nat) (sc : pscc) (St : rel -> list nat) (XS : rel -> list xidx) (T D : rel -> list nat)
         (XT XD : rel -> list xidx) (R : rel -> list (vtuple V)) (tk : nat) : option xloop_out :=
  match fuel with
  | O => None
  | S n =>
      let s := xscc_iteration (s_dyn sc) St T D XS XT XD sc R tk in
      if i_changed (x_s s) then
        xscc_loop n sc St XS (merge T D) (i_new (x_s s)) (xmerge XT XD) (x_new s) (i_rows (x_s s)) (i_tick (x_s s))
      else Some {| xo_T := merge T D; xo_XT := xmerge XT XD; xo_rows := i_rows (x_s s); xo_tick := i_tick (x_s s) |}
  end.

(* the program value between SCCs: LatEval's (rows; the stored row numbers of the PLAIN relations; tick) and the stored
   index fields of the lattice relations *)
Record xlstate := { xl_s : @lstate V; xl_ix : rel -> list xidx }.

Definition xrun_scc (fuel : nat) (sc : pscc) (st : xlstate) : option xlstate :=
  let dyn := s_dyn sc in
  let b := xl_s st in
  let D0 := fun r => if is_dyn dyn r then l_stored b r else [] in
  let T0 := fun _ : rel => @nil nat in
  let XD0 := fun r => if is_dyn dyn r then xl_ix st r else [] in
  let XT0 := fun r => if is_dyn dyn r then map xclear (xl_ix st r) else [] in
  let back := fun (Tf : rel -> list nat) r => if is_dyn dyn r then Tf r else l_stored b r in
  let xback := fun (Xf : rel -> list xidx) r => if is_dyn dyn r then Xf r else xl_ix st r in
  if s_loop sc then
    match xscc_loop fuel sc (l_stored b) (xl_ix st) T0 D0 XT0 XD0 (l_rows b) (l_tick b) with
    | Some o => Some {| xl_s := {| l_rows := xo_rows o; l_stored := back (xo_T o); l_tick := xo_tick o |}; xl_ix := xback (xo_XT o) |}
    | None => None
    end
  else
    let s := xscc_iteration dyn (l_stored b) T0 D0 (xl_ix st) XT0 XD0 sc (l_rows b) (l_tick b) in
    Some {| xl_s := {| l_rows := i_rows (x_s s); l_stored := back (merge (merge T0 D0) (i_new (x_s s))); l_tick := i_tick (x_s s) |};
            xl_ix := xback (xmerge (xmerge XT0 XD0) (x_new s)) |}.

Fixpoint xrun_sccs (fuel : nat) (pl : plan) (st : xlstate) : option xlstate :=
  match pl with
  | [] => Some st
  | sc :: pl' => match xrun_scc fuel sc st with Some st' => xrun_sccs fuel pl' st' | None => None end
  end.

(* update_indices: every index field rebuilt from the rows.  decls r = the indices the macro plans for the lattice
   relation r: (columns, is it the key index) *)
Definition xbuild (R : list (vtuple V)) (d : list nat * bool) : xidx :=
  fold_left (fun x p => xins (snd p) (fst p) x) (combine (seq 0 (length R)) R) {| xc := fst d; xk := snd d; xe := [] |}.

Definition xupdate_indices (decls : rel -> list (list nat * bool)) (R : rel -> list (vtuple V)) : xlstate :=
  {| xl_s := {| l_rows := R; l_stored := fun r => if islat r then [] else seq 0 (length (R r)); l_tick := 0 |};
     xl_ix := fun r => if islat r then map (xbuild (R r)) (decls r) else [] |}.

Definition xrun_plan (decls : rel -> list (list nat * bool)) (fuel : nat) (pl : plan) (R : rel -> list (vtuple V)) : option xlstate :=
  xrun_sccs fuel pl (xupdate_indices decls R).
End LatIndexedEval.

(* ---------- the indices of the lattice relations, as a table (relation, columns, key index?) ---------- *)
Definition xdecl := (rel * list nat * bool)%type.
Definition decls_of (ds : list xdecl) (r : rel) : list (list nat * bool) :=
  map (fun d => (snd (fst d), snd d)) (filter (fun d => Nat.eqb (fst (fst d)) r) ds).

(* ---------- the plan check of the refinement (LatIndexedRefine.v): arities are respected, every index a clause or an
   aggregate reads on a lattice relation is declared and leaves the lattice column alone (this part is
   LatAggEval.alat_plan_ok), every lattice relation has its key index, declared once ---------- *)
Definition ar_of (arities : list (rel * nat)) (r : rel) : nat :=
  match find (fun p => Nat.eqb (fst p) r) arities with Some p => snd p | None => 0 end.
Definition xdeclared (ds : list xdecl) (r : rel) (cols : list nat) : bool :=
  existsb (fun c => ncols_eqb (fst c) cols) (decls_of ds r).
Definition xitem_ok (islat : rel -> bool) (arities : list (rel * nat)) (ds : list xdecl) (p : pitem) : bool :=
  match p with
  | PClause r args _ idx _ =>
      Nat.eqb (length args) (ar_of arities r)
      && (negb (islat r) || (xdeclared ds r idx && forallb (fun i => Nat.ltb (S i) (ar_of arities r)) idx && negb (Nat.eqb (length idx) (ar_of arities r))))
  | PAgg _ _ _ r args idx =>
      Nat.eqb (length args) (ar_of arities r)
      && (negb (islat r) || (xdeclared ds r idx && forallb (fun i => Nat.ltb (S i) (ar_of arities r)) idx && negb (Nat.eqb (length idx) (ar_of arities r))))
  | _ => true
  end.
Definition xvariant_ok (islat : rel -> bool) (arities : list (rel * nat)) (ds : list xdecl) (dyn : list rel) (v : variant) : bool :=
  forallb (xitem_ok islat arities ds) (v_items v)
  && forallb (fun h => Nat.eqb (length (snd h)) (ar_of arities (fst h)) && is_dyn dyn (fst h)) (v_heads v).
Fixpoint nodup_cols (l : list (list nat)) : bool :=
  match l with [] => true | c :: l' => negb (existsb (ncols_eqb c) l') && nodup_cols l' end.
Definition xdecl_ok (islat : rel -> bool) (arities : list (rel * nat)) (ds : list xdecl) (r : rel) : bool :=
  negb (islat r)
  || (Nat.ltb 0 (ar_of arities r)
      && nodup_cols (map fst (decls_of ds r))
      && forallb (fun c => Bool.eqb (snd c) (ncols_eqb (fst c) (seq 0 (pred (ar_of arities r))))) (decls_of ds r)
      && xdeclared ds r (seq 0 (pred (ar_of arities r)))).
Definition xplan_ok (islat : rel -> bool) (arities : list (rel * nat)) (ds : list xdecl) (pl : plan) : bool :=
  forallb (fun sc => forallb (xvariant_ok islat arities ds (s_dyn sc)) (s_vars sc)) pl
  && forallb (fun p => xdecl_ok islat arities ds (fst p)) arities
  && forallb (fun d => islat (fst (fst d)) && existsb (fun p => Nat.eqb (fst p) (fst (fst d))) arities) ds.

(* ---------- observation for the tie: rows, and every stored index field of the listed lattice relations ---------- *)
Definition xshow {V : Type} (rs : list rel) (st : @xlstate V)
  : list (rel * list (vtuple V)) * list (rel * list (list nat * bool * list (list V * list nat))) :=
  (map (fun r => (r, l_rows (xl_s st) r)) rs,
   map (fun r => (r, map (fun x => (xc x, xk x, xe x)) (xl_ix st r))) rs).
