(* C03 - executable model of the SERIAL generated code for programs mixing relations and lattices
   (ascent_codegen.rs: compile_mir / compile_mir_scc / compile_mir_rule / compile_mir_rule_inner /
   head_update_code / clause_var_assignments / compile_update_indices_function_body).

   State.  Per relation the rows in insertion order (the public Vec field); a row of a lattice relation is
   MUTABLE in its last column.  Every index of a relation, in each of its versions total / delta / new,
   is modelled by ONE set of ROW NUMBERS per relation and version, of which each logical index is a view:
   a lookup returns the row numbers of the set whose row currently has the key on the index columns.
   - lattice relations: this is literally what the code stores (IndexValType::Reference: LatticeIndexType =
     key -> set of row numbers; the key index RelFullIndexType = key -> row number).  The key of a row on
     columns other than the last never changes, so filtering by the current key = the stored key; the model
     is valid only for plans in which no lattice clause is indexed on the lattice column (the all-columns
     index of a lattice is never updated by the head code; LatPlan.lat_plan_ok checks this on every plan).
   - plain relations: the indices store column values (IndexValType::Direct); rows of a plain relation never
     change, so the set of row numbers determines the same content.  The full index is a set of rows, the
     other indices are vectors with one entry per pushed row.
   Merging (merge_delta_to_total_new_to_delta) is set union here (exact for lattice indices, and equal to the
   vector append of plain indices whenever total and delta are disjoint, which holds after update_indices).
   Rows are read when a clause iteration reaches them (`&_self.rel[ind]` cloned): a rule observes values
   raised earlier in the same iteration.  The evaluator therefore threads the whole state through the
   nested loops in continuation-passing style; the innermost continuation is the head update.
   Oracles (every theorem is for ALL of them): [shuffle n l] = the order in which the n-th index lookup /
   scan of a run iterates its row numbers (hash order); [swap_oracle] = the len_estimate comparison of a
   reorderable simple join. *)
From Coq Require Import List ZArith Bool Arith.
From AV Require Import Engine.Core.
From AV Require Import Engine.Eval.
From AV Require Import LatEngine.LatSyntax.
Import ListNotations.

Definition upd {A : Type} (f : rel -> A) (r : rel) (a : A) : rel -> A := fun q => if Nat.eqb q r then a else f q.

Fixpoint set_nth {A : Type} (i : nat) (a : A) (l : list A) : list A :=
  match l, i with
  | [], _ => []
  | _ :: l', O => a :: l'
  | x :: l', S j => x :: set_nth j a l'
  end.

Definition nmem (i : nat) (l : list nat) : bool := existsb (Nat.eqb i) l.
Definition nadd (i : nat) (l : list nat) : list nat := if nmem i l then l else l ++ [i].
Definition nunion (l1 l2 : list nat) : list nat := fold_left (fun acc i => nadd i acc) l2 l1.

Section LatEval.
Context {V : Type}.
Variable I : linterp V.
Variable islat : rel -> bool.                       (* declared with `lattice` *)
Variable jm : rel -> V -> V -> V * bool.            (* Lattice::join_mut of the relation's last column type *)
Variable shuffle : nat -> list nat -> list nat.
Variable swap_oracle : nat -> list nat -> list nat -> bool.

(* state inside one evaluation of the rules of an SCC *)
Record istate := {
  i_rows : rel -> list (vtuple V);
  i_new : rel -> list nat;          (* the `new` version of the indices *)
  i_changed : bool;                 (* __changed *)
  i_tick : nat                      (* number of index lookups / scans so far (argument of the oracles) *)
}.

Definition tick (s : istate) : istate :=
  {| i_rows := i_rows s; i_new := i_new s; i_changed := i_changed s; i_tick := S (i_tick s) |}.

Section Iter.
Variable dyn : list rel.
Variables St T D : rel -> list nat.    (* stored indices of the body-only relations; total and delta of the dynamic ones *)

Definition vrows (r : rel) (v : version) : list nat :=
  if is_dyn dyn r then
    match v with VTotal => T r | VDelta => D r | VTotalDelta => T r ++ D r end
  else St r.

(* ---------- head update (head_update_code) ---------- *)
Definition row_has_key (R : list (vtuple V)) (key : list V) (i : nat) : bool :=
  match nth_error R i with Some row => vlist_eqb I (tkey row) key | None => false end.
Definition find_key (R : list (vtuple V)) (key : list V) (l : list nat) : option nat := find (row_has_key R key) l.

Definition row_is (R : list (vtuple V)) (t : vtuple V) (i : nat) : bool :=
  match nth_error R i with Some row => vlist_eqb I row t | None => false end.
Definition mem_row (R : list (vtuple V)) (t : vtuple V) (l : list nat) : bool := existsb (row_is R t) l.

Definition orelse {A : Type} (a b : option A) : option A := match a with Some _ => a | None => b end.

Definition push_row (s : istate) (r : rel) (t : vtuple V) : istate :=
  let R := i_rows s r in
  {| i_rows := upd (i_rows s) r (R ++ [t]);
     i_new := upd (i_new s) r (nadd (length R) (i_new s r));
     i_changed := true; i_tick := i_tick s |}.

Definition head_update (s : istate) (f : vfact V) : istate :=
  let r := fst f in
  let t := snd f in
  let R := i_rows s r in
  if islat r then
    (* look the key up in the key index of new, then delta, then total *)
    match orelse (find_key R (tkey t) (i_new s r)) (orelse (find_key R (tkey t) (D r)) (find_key R (tkey t) (T r))) with
    | Some i =>
        match nth_error R i with
        | Some row =>
            (* join_mut in place; when it reports a change the row number is (re-)inserted into the new indices *)
            let (v', ch) := jm r (tval I row) (tval I t) in
            let R' := set_nth i (tkey row ++ [v']) R in
            if ch then
              {| i_rows := upd (i_rows s) r R'; i_new := upd (i_new s) r (nadd i (i_new s r));
                 i_changed := true; i_tick := i_tick s |}
            else
              {| i_rows := upd (i_rows s) r R'; i_new := i_new s; i_changed := i_changed s; i_tick := i_tick s |}
        | None => s
        end
    | None => push_row s r t
    end
  else
    (* contains_key(total), contains_key(delta), insert_if_not_present(new) *)
    if mem_row R t (T r) || mem_row R t (D r) || mem_row R t (i_new s r) then s else push_row s r t.

Definition heads_update (hs : list (rel * list term)) (e : venv V) (s : istate) : istate :=
  fold_left (fun s h => match veval_head I e h with Some f => head_update s f | None => s end) hs s.

(* ---------- rule bodies (compile_mir_rule_inner) ---------- *)
Definition clause_step (k : venv V -> istate -> istate) (e : venv V) (r : rel) (args : list term) (cs : list cond)
           (idx : list nat) (key : list V) (s : istate) (i : nat) : istate :=
  match nth_error (i_rows s r) i with
  | None => s
  | Some row =>                         (* `&_self.r[i]` cloned now *)
      if vlist_eqb I (vproj I idx row) key then
        match vsat_conds I (vbind_new e args row) cs with Some e2 => k e2 s | None => s end
      else s
  end.

(* a clause looked up through its index (index_get), or scanned completely when idx = [] (iter_all) *)
Definition eval_clause (k : venv V -> istate -> istate) (e : venv V) r args cs idx ver (s : istate) : istate :=
  match veval_key I e args idx with
  | None => s
  | Some key => fold_left (clause_step k e r args cs idx key) (shuffle (i_tick s) (vrows r ver)) (tick s)
  end.

Fixpoint eval_items (items : list pitem) (k : venv V -> istate -> istate) (e : venv V) (s : istate) : istate :=
  match items with
  | [] => k e s
  | PClause r args cs idx ver :: rest => eval_clause (eval_items rest k) e r args cs idx ver s
  | PCond c :: rest => match vsat_cond I e c with Some e' => eval_items rest k e' s | None => s end
  | PGen x g xs :: rest =>
      match veval_vars e xs with
      | Some vs => fold_left (fun s v => eval_items rest k (vbind x v e) s) (vgen I g vs) s
      | None => s end
  | PAgg _ _ _ _ _ _ :: _ => s          (* aggregation is outside this model (C04) *)
  end.

(* simple join at position 0: the first clause is scanned completely, the second is looked up by its index;
   when reorderable and the len_estimate comparison says so, the two clauses are swapped *)
Definition eval_simple_join (items : list pitem) (reord : bool) (k : venv V -> istate -> istate) (e : venv V) (s : istate) : istate :=
  match items with
  | PClause r1 a1 c1 i1 v1 :: PClause r2 a2 c2 i2 v2 :: rest =>
      if reord && negb (swap_oracle (i_tick s) (vrows r1 v1) (vrows r2 v2)) then
        eval_clause (fun e1 => eval_clause (eval_items rest k) e1 r1 a1 c1 i1 v1) e r2 a2 c2 [] v2 s
      else
        eval_clause (fun e1 => eval_clause (eval_items rest k) e1 r2 a2 c2 i2 v2) e r1 a1 c1 [] v1 s
  | _ => eval_items items k e s
  end.

Fixpoint eval_from (items : list pitem) (sj : option nat) (reord : bool) (k : venv V -> istate -> istate) (e : venv V) (s : istate) : istate :=
  match sj with
  | None => eval_items items k e s
  | Some O => eval_simple_join items reord k e s
  | Some (S n) =>
      match items with
      | [] => k e s
      | PCond c :: rest => match vsat_cond I e c with Some e' => eval_from rest (Some n) reord k e' s | None => s end
      | PGen x g xs :: rest =>
          match veval_vars e xs with
          | Some vs => fold_left (fun s v => eval_from rest (Some n) reord k (vbind x v e) s) (vgen I g vs) s
          | None => s end
      | PAgg _ _ _ _ _ _ :: _ => s
      | PClause r args cs idx ver :: rest =>    (* cannot happen: the simple join starts at the first clause *)
          eval_clause (eval_from rest (Some n) reord k) e r args cs idx ver s
      end
  end.

Definition clause_empty (p : pitem) : bool :=
  match p with PClause r _ _ _ ver => match vrows r ver with [] => true | _ => false end | _ => false end.
Definition is_clause (p : pitem) : bool := match p with PClause _ _ _ _ _ => true | _ => false end.

(* compile_mir_rule: optional any-relation-empty skip around the rule body *)
Definition eval_variant (s : istate) (v : variant) : istate :=
  let ncl := length (filter is_clause (v_items v)) in
  let can_help := Nat.ltb 1 ncl && negb (match v_sj v with Some _ => Nat.eqb ncl 2 | None => false end) in
  if can_help && existsb clause_empty (v_items v) then s
  else eval_from (v_items v) (v_sj v) (v_reord v) (heads_update (v_heads v)) [] s.

(* one evaluation of all rule variants of an SCC *)
Definition scc_iteration (sc : pscc) (R : rel -> list (vtuple V)) (tk : nat) : istate :=
  fold_left eval_variant (s_vars sc) {| i_rows := R; i_new := fun _ => []; i_changed := false; i_tick := tk |}.
End Iter.

Definition merge (T D : rel -> list nat) : rel -> list nat := fun r => nunion (T r) (D r).

(* loop { evaluate; merge delta into total, new into delta; exit when nothing changed }; returns the total
   indices, the rows and the tick counter *)
Fixpoint scc_loop (fuel : nat) (sc : pscc) (St T D : rel -> list nat) (R : rel -> list (vtuple V)) (tk : nat)
  : option ((rel -> list nat) * (rel -> list (vtuple V)) * nat) :=
  match fuel with
  | O => None
  | S n =>
      let s := scc_iteration (s_dyn sc) St T D sc R tk in
      if i_changed s then scc_loop n sc St (merge T D) (i_new s) (i_rows s) (i_tick s)
      else Some (merge T D, i_rows s, i_tick s)
  end.

(* the program value between SCCs: rows and the stored (total) indices *)
Record lstate := { l_rows : rel -> list (vtuple V); l_stored : rel -> list nat; l_tick : nat }.

(* compile_mir_scc: take the stored indices of the dynamic relations as delta, fresh total / new; afterwards
   the total indices are stored back *)
Definition run_scc (fuel : nat) (sc : pscc) (st : lstate) : option lstate :=
  let dyn := s_dyn sc in
  let D0 := fun r => if is_dyn dyn r then l_stored st r else [] in
  let T0 := fun _ : rel => @nil nat in
  let back := fun (Tf : rel -> list nat) r => if is_dyn dyn r then Tf r else l_stored st r in
  if s_loop sc then
    match scc_loop fuel sc (l_stored st) T0 D0 (l_rows st) (l_tick st) with
    | Some (Tf, R, tk) => Some {| l_rows := R; l_stored := back Tf; l_tick := tk |}
    | None => None
    end
  else
    let s := scc_iteration dyn (l_stored st) T0 D0 sc (l_rows st) (l_tick st) in
    (* two merges: delta into total, then new (now delta) into total *)
    Some {| l_rows := i_rows s; l_stored := back (merge (merge T0 D0) (i_new s)); l_tick := i_tick s |}.

Fixpoint run_sccs (fuel : nat) (pl : plan) (st : lstate) : option lstate :=
  match pl with
  | [] => Some st
  | sc :: pl' => match run_scc fuel sc st with Some st' => run_sccs fuel pl' st' | None => None end
  end.

(* run(): update_indices rebuilds every index from the rows, then the SCCs in plan order *)
Definition update_indices (R : rel -> list (vtuple V)) : lstate :=
  {| l_rows := R; l_stored := fun r => seq 0 (length (R r)); l_tick := 0 |}.
Definition run_plan (fuel : nat) (pl : plan) (R : rel -> list (vtuple V)) : option lstate :=
  run_sccs fuel pl (update_indices R).
End LatEval.
