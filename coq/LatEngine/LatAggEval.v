(* C04 over lattices - executable model of the SERIAL generated code for programs mixing relations and
   lattices WITH aggregation / negation: LatEval.v (same state, same head update, same clause loops)
   extended with the `MirBodyItem::Agg` arm of ascent_codegen.rs compile_mir_rule_inner:

       let __aggregated_rel = <TOTAL version of the index of the aggregated relation on the key columns>;
       let __matching = __aggregated_rel.index_get(&(key exprs));
       let __agg_args = __matching.into_iter().flatten().map(|__val| { <bound columns of the row> });
       for <pat> in <aggregator>(__agg_args) { <rest of the body> }

   - the version is always Total (`MirRelation::from(agg.rel.clone(), Total)`), whatever the SCC;
   - a LATTICE relation's index is a set of ROW NUMBERS (IndexValType::Reference): the row is read through
     its number (`&_self.rel[*__val]`) when the aggregate is evaluated, ONE entry per row;
   - a plain relation's index stores column values; the full index (all columns) is a set of rows, the
     other indices hold one entry per pushed row (modelled as in LatEval.v by one set of row numbers per
     relation and version, so a row that occurs twice in the INPUT of a plain relation is two entries of a
     non-full index and one entry of the full index);
   - the aggregator receives the projections on the bound columns (in the order of `bound`), and the body
     continues once per value it returns; negation `!r(args)` is the aggregator `not` with pattern `()`
     (out = None: nothing is bound).
   The order in which the index is iterated (hash order) is the oracle [ashuffle]; it is applied to the
   current tick but does not advance it.  All definitions that do not involve aggregation are those of
   LatEval.v (reused, not copied); the evaluators are prefixed with `a`. *)
From Coq Require Import List ZArith Bool Arith.
From AV Require Import Engine.Core.
From AV Require Import Engine.Eval.
From AV Require Import LatEngine.LatSyntax.
From AV Require Import LatEngine.LatEval.
Import ListNotations.

Section LatAggEval.
Context {V : Type}.
Variable I : linterp V.
Variable vagg : nat -> list (list V) -> list V.     (* aggregators: bound-column tuples -> results *)
Variable islat : rel -> bool.
Variable jm : rel -> V -> V -> V * bool.
Variable shuffle : nat -> list nat -> list nat.
Variable ashuffle : nat -> list nat -> list nat.    (* iteration order of the index read by an aggregate *)
Variable swap_oracle : nat -> list nat -> list nat -> bool.

(* key of the index lookup: the key expressions at the index positions (Eval.agg_key over V) *)
Fixpoint vagg_key (e : venv V) (args : list aarg) (idx : list nat) : option (list V) :=
  match idx with
  | [] => Some []
  | i :: idx' => match nth_error args i with
                 | Some (AKey t) => match veval_term I e t, vagg_key e args idx' with
                                    | Some v, Some vs => Some (v :: vs) | _, _ => None end
                 | _ => None end
  end.

(* the bound columns of a row, in the order of [bound] (Sem.agg_col / Sem.agg_input over V) *)
Fixpoint vagg_col (x : var) (args : list aarg) (tup : vtuple V) : option V :=
  match args, tup with
  | ABound y :: args', v :: tup' => if Nat.eqb x y then Some v else vagg_col x args' tup'
  | _ :: args', _ :: tup' => vagg_col x args' tup'
  | _, _ => None
  end.
Definition vagg_input (bound : list var) (args : list aarg) (tup : vtuple V) : list V :=
  filter_map (fun x => vagg_col x args tup) bound.

Definition vbind_out (out : option var) (v : V) (e : venv V) : venv V :=
  match out with Some x => vbind x v e | None => e end.

Fixpoint vdedup (l : list (vtuple V)) : list (vtuple V) :=
  match l with
  | [] => []
  | t :: l' => if existsb (vlist_eqb I t) l' then vdedup l' else t :: vdedup l'
  end.

(* the rows behind the entries [ids] of the index whose key columns are [idx], under [key]: read now *)
Definition agg_matching (R : list (vtuple V)) (idx : list nat) (key : list V) (ids : list nat) : list (vtuple V) :=
  filter_map (fun i => match nth_error R i with
                       | Some row => if vlist_eqb I (vproj I idx row) key then Some row else None
                       | None => None end) ids.

Definition agg_rows (arity : nat) (lat : bool) (R : list (vtuple V)) (idx : list nat) (key : list V) (ids : list nat)
  : list (vtuple V) :=
  let m := agg_matching R idx key ids in
  if negb lat && Nat.eqb (length idx) arity then vdedup m else m.

Section Iter.
Variable dyn : list rel.
Variables St T D : rel -> list nat.

Notation vrows := (vrows dyn St T D).
Notation eval_clause := (eval_clause I shuffle dyn St T D).

(* the values an aggregate item yields in state s under environment e (None: a key expression is unbound) *)
Definition agg_values (e : venv V) (s : @istate V) (a : nat) (bound : list var) (r : rel) (args : list aarg) (idx : list nat)
  : option (list V) :=
  match vagg_key e args idx with
  | None => None
  | Some key =>
      let rows := agg_rows (length args) (islat r) (i_rows s r) idx key (ashuffle (i_tick s) (vrows r VTotal)) in
      Some (vagg a (map (vagg_input bound args) rows))
  end.

Fixpoint aeval_items (items : list pitem) (k : venv V -> istate -> istate) (e : venv V) (s : istate) : istate :=
  match items with
  | [] => k e s
  | PClause r args cs idx ver :: rest => eval_clause (aeval_items rest k) e r args cs idx ver s
  | PCond c :: rest => match vsat_cond I e c with Some e' => aeval_items rest k e' s | None => s end
  | PGen x g xs :: rest =>
      match veval_vars e xs with
      | Some vs => fold_left (fun s v => aeval_items rest k (vbind x v e) s) (vgen I g vs) s
      | None => s end
  | PAgg out a bound r args idx :: rest =>
      match agg_values e s a bound r args idx with
      | Some vals => fold_left (fun s v => aeval_items rest k (vbind_out out v e) s) vals s
      | None => s end
  end.

Definition aeval_simple_join (items : list pitem) (reord : bool) (k : venv V -> istate -> istate) (e : venv V) (s : istate) : istate :=
  match items with
  | PClause r1 a1 c1 i1 v1 :: PClause r2 a2 c2 i2 v2 :: rest =>
      if reord && negb (swap_oracle (i_tick s) (vrows r1 v1) (vrows r2 v2)) then
        eval_clause (fun e1 => eval_clause (aeval_items rest k) e1 r1 a1 c1 i1 v1) e r2 a2 c2 [] v2 s
      else
        eval_clause (fun e1 => eval_clause (aeval_items rest k) e1 r2 a2 c2 i2 v2) e r1 a1 c1 [] v1 s
  | _ => aeval_items items k e s
  end.

Fixpoint aeval_from (items : list pitem) (sj : option nat) (reord : bool) (k : venv V -> istate -> istate) (e : venv V) (s : istate) : istate :=
  match sj with
  | None => aeval_items items k e s
  | Some O => aeval_simple_join items reord k e s
  | Some (S n) =>
      match items with
      | [] => k e s
      | PCond c :: rest => match vsat_cond I e c with Some e' => aeval_from rest (Some n) reord k e' s | None => s end
      | PGen x g xs :: rest =>
          match veval_vars e xs with
          | Some vs => fold_left (fun s v => aeval_from rest (Some n) reord k (vbind x v e) s) (vgen I g vs) s
          | None => s end
      | PAgg out a bound r args idx :: rest =>
          match agg_values e s a bound r args idx with
          | Some vals => fold_left (fun s v => aeval_from rest (Some n) reord k (vbind_out out v e) s) vals s
          | None => s end
      | PClause r args cs idx ver :: rest =>    (* cannot happen: the simple join starts at the first clause *)
          eval_clause (aeval_from rest (Some n) reord k) e r args cs idx ver s
      end
  end.

(* compile_mir_rule: the any-relation-empty skip looks at the clauses only (aggregated relations are not tested) *)
Definition aeval_variant (s : istate) (v : variant) : istate :=
  let ncl := length (filter is_clause (v_items v)) in
  let can_help := Nat.ltb 1 ncl && negb (match v_sj v with Some _ => Nat.eqb ncl 2 | None => false end) in
  if can_help && existsb (clause_empty dyn St T D) (v_items v) then s
  else aeval_from (v_items v) (v_sj v) (v_reord v) (heads_update I islat jm T D (v_heads v)) [] s.

Definition ascc_iteration (sc : pscc) (R : rel -> list (vtuple V)) (tk : nat) : istate :=
  fold_left aeval_variant (s_vars sc) {| i_rows := R; i_new := fun _ => []; i_changed := false; i_tick := tk |}.
End Iter.

Fixpoint ascc_loop (fuel : nat) (sc : pscc) (St T D : rel -> list nat) (R : rel -> list (vtuple V)) (tk : nat)
  : option ((rel -> list nat) * (rel -> list (vtuple V)) * nat) :=
  match fuel with
  | O => None
  | S n =>
      let s := ascc_iteration (s_dyn sc) St T D sc R tk in
      if i_changed s then ascc_loop n sc St (merge T D) (i_new s) (i_rows s) (i_tick s)
      else Some (merge T D, i_rows s, i_tick s)
  end.

Definition arun_scc (fuel : nat) (sc : pscc) (st : @lstate V) : option lstate :=
  let dyn := s_dyn sc in
  let D0 := fun r => if is_dyn dyn r then l_stored st r else [] in
  let T0 := fun _ : rel => @nil nat in
  let back := fun (Tf : rel -> list nat) r => if is_dyn dyn r then Tf r else l_stored st r in
  if s_loop sc then
    match ascc_loop fuel sc (l_stored st) T0 D0 (l_rows st) (l_tick st) with
    | Some (Tf, R, tk) => Some {| l_rows := R; l_stored := back Tf; l_tick := tk |}
    | None => None
    end
  else
    let s := ascc_iteration dyn (l_stored st) T0 D0 sc (l_rows st) (l_tick st) in
    Some {| l_rows := i_rows s; l_stored := back (merge (merge T0 D0) (i_new s)); l_tick := i_tick s |}.

Fixpoint arun_sccs (fuel : nat) (pl : plan) (st : @lstate V) : option lstate :=
  match pl with
  | [] => Some st
  | sc :: pl' => match arun_scc fuel sc st with Some st' => arun_sccs fuel pl' st' | None => None end
  end.

Definition arun_plan (fuel : nat) (pl : plan) (R : rel -> list (vtuple V)) : option lstate :=
  arun_sccs fuel pl (update_indices R).
End LatAggEval.

(* ---------- the extra plan check (next to Engine/Validate.v validate) ----------
   no clause and no aggregate on a lattice relation is indexed on the lattice column; lattice relations
   have at least one column *)
Definition alat_item_ok (islat : rel -> bool) (p : pitem) : bool :=
  match p with
  | PClause r args _ idx _ => negb (islat r) || forallb (fun i => Nat.ltb (S i) (length args)) idx
  | PAgg _ _ _ r args idx => negb (islat r) || forallb (fun i => Nat.ltb (S i) (length args)) idx
  | _ => true
  end.
Definition alat_variant_ok (islat : rel -> bool) (v : variant) : bool := forallb (alat_item_ok islat) (v_items v).
Definition alat_plan_ok (islat : rel -> bool) (arities : list (rel * nat)) (pl : plan) : bool :=
  forallb (fun sc => forallb (alat_variant_ok islat) (s_vars sc)) pl
  && forallb (fun p => negb (islat (fst p)) || Nat.ltb 0 (snd p)) arities.
