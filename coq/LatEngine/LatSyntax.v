(* C03 - programs mixing relations and lattices: values, interpretations, environments.

   The rule / plan SYNTAX is the one of the relation engine (Engine/Core.v: term, cond, bitem, rule;
   Engine/Eval.v: pitem, variant, pscc, plan), so the plan validator Engine/Validate.v applies
   unchanged.  What differs is the value universe: column values range over an ARBITRARY type V
   (plain columns and lattice columns alike), so that the lattice of a lattice relation can be any
   structure on (a subset of) V.  All evaluation functions of Core.v are restated over V here
   (names prefixed with v to keep them apart from the Z-valued ones of Engine/Core.v). *)
From Coq Require Import List ZArith Bool Arith.
From AV Require Import Engine.Core.
Import ListNotations.

Section Syntax.
Context {V : Type}.

Definition vtuple := list V.

(* interpretation of the symbols of a program over V; veqb is the equality test `==` of column values *)
Record linterp := {
  vconst : Z -> V;
  vfun : nat -> list V -> V;
  vpred : nat -> list V -> bool;
  vpart : nat -> list V -> option V;
  vgen : nat -> list V -> list V;
  veqb : V -> V -> bool
}.

Definition veqb_ok (I : linterp) : Prop := forall a b, veqb I a b = true <-> a = b.

(* positional environments, as in Core.v *)
Definition venv := list (option V).
Definition vlookup (e : venv) (x : var) : option V := nth x e None.
Fixpoint vbind (x : var) (v : V) (e : venv) : venv :=
  match x, e with
  | O, [] => [Some v]
  | O, _ :: e' => Some v :: e'
  | S n, [] => None :: vbind n v []
  | S n, o :: e' => o :: vbind n v e'
  end.

Fixpoint veval_vars (e : venv) (xs : list var) : option (list V) :=
  match xs with
  | [] => Some []
  | x :: xs' => match vlookup e x, veval_vars e xs' with Some v, Some vs => Some (v :: vs) | _, _ => None end
  end.

Variable I : linterp.

Definition veval_term (e : venv) (t : term) : option V :=
  match t with
  | TVar x => vlookup e x
  | TConst c => Some (vconst I c)
  | TFun f xs => option_map (vfun I f) (veval_vars e xs)
  end.

Fixpoint veval_terms (e : venv) (ts : list term) : option (list V) :=
  match ts with
  | [] => Some []
  | t :: ts' => match veval_term e t, veval_terms e ts' with Some v, Some vs => Some (v :: vs) | _, _ => None end
  end.

Definition vsat_cond (e : venv) (c : cond) : option venv :=
  match c with
  | CIf p xs => match veval_vars e xs with Some vs => if vpred I p vs then Some e else None | None => None end
  | CBind x f xs => match veval_vars e xs with
                    | Some vs => match vpart I f vs with Some v => Some (vbind x v e) | None => None end
                    | None => None end
  end.

Fixpoint vsat_conds (e : venv) (cs : list cond) : option venv :=
  match cs with
  | [] => Some e
  | c :: cs' => match vsat_cond e c with Some e' => vsat_conds e' cs' | None => None end
  end.

Definition vfact := (rel * vtuple)%type.

Definition veval_head (e : venv) (h : rel * list term) : option vfact :=
  option_map (fun vs => (fst h, vs)) (veval_terms e (snd h)).

Fixpoint vlist_eqb (a b : list V) : bool :=
  match a, b with
  | [], [] => true
  | x :: a', y :: b' => veqb I x y && vlist_eqb a' b'
  | _, _ => false
  end.

(* specification-level matching of a body clause against a tuple: the first occurrence of a variable binds
   it, a bound variable / constant / expression tests equality (Sem.match_args over V) *)
Fixpoint vmatch_args (e : venv) (args : list term) (tup : vtuple) : option venv :=
  match args, tup with
  | [], [] => Some e
  | a :: args', v :: tup' =>
      match a with
      | TVar x => match vlookup e x with
                  | Some w => if veqb I w v then vmatch_args e args' tup' else None
                  | None => vmatch_args (vbind x v e) args' tup'
                  end
      | _ => match veval_term e a with
             | Some w => if veqb I w v then vmatch_args e args' tup' else None
             | None => None
             end
      end
  | _, _ => None
  end.

(* the generated code: index key from the bound positions, unchecked assignment of the other columns *)
Definition vd : V := vconst I 0.
Definition vproj (idx : list nat) (t : vtuple) : list V := map (fun i => nth i t vd) idx.

Fixpoint veval_key (e : venv) (args : list term) (idx : list nat) : option (list V) :=
  match idx with
  | [] => Some []
  | i :: idx' => match nth_error args i with
                 | Some t => match veval_term e t, veval_key e args idx' with
                             | Some v, Some vs => Some (v :: vs) | _, _ => None end
                 | None => None end
  end.

Fixpoint vbind_new (e : venv) (args : list term) (tup : vtuple) : venv :=
  match args, tup with
  | TVar x :: args', v :: tup' =>
      match vlookup e x with Some _ => vbind_new e args' tup' | None => vbind_new (vbind x v e) args' tup' end
  | _ :: args', _ :: tup' => vbind_new e args' tup'
  | _, _ => e
  end.

(* lattice rows: key = all columns but the last, value = the last column *)
Definition tkey (t : vtuple) : list V := removelast t.
Definition tval (t : vtuple) : V := last t vd.
End Syntax.

Arguments linterp V : clear implicits.
Arguments venv V : clear implicits.
Arguments vtuple V : clear implicits.
Arguments vfact V : clear implicits.
