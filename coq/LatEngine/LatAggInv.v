(* C03/C04 - two more structural invariants of the serial lattice engine, for EVERY program (no monotonicity,
   no lattice laws), on top of LatKeys.kinv:
   - the rows of a PLAIN relation stay duplicate free (the head update pushes a row only when it is in none
     of total / delta / new, and every row number is in one of them);
   - the stored (total) indices between SCCs are EXACT: duplicate free, and a row number is stored iff it
     is a row of the relation (what update_indices builds, and what every SCC stores back). *)
From Coq Require Import List ZArith Bool Arith Lia.
From AV Require Import Engine.Core.
From AV Require Import Engine.Eval.
From AV Require Import Engine.Validate.
From AV Require Import Engine.Naive.
From AV Require Import LatEngine.LatSyntax.
From AV Require Import LatEngine.LatEval.
From AV Require Import LatEngine.LatClause.
From AV Require Import LatEngine.LatMono.
From AV Require Import LatEngine.LatBase.
From AV Require Import LatEngine.LatHead.
From AV Require Import LatEngine.LatKeys.
Import ListNotations.
Local Open Scope nat_scope.

(* ---------- nadd / nunion keep lists duplicate free ---------- *)
Lemma nadd_NoDup : forall i l, NoDup l -> NoDup (nadd i l).
Proof.
  intros i l Hl. unfold nadd. destruct (nmem i l) eqn:E; [exact Hl|].
  apply NoDup_app_intro_single; [exact Hl|]. intros Hin. apply nmem_In in Hin. congruence.
Qed.

Lemma nunion_NoDup : forall l2 l1, NoDup l1 -> NoDup (nunion l1 l2).
Proof.
  unfold nunion. induction l2 as [|i l2 IH]; intros l1 Hl; cbn [fold_left]; [exact Hl|].
  apply IH. apply nadd_NoDup. exact Hl.
Qed.

Definition plain_nodup {V} (islat : rel -> bool) (R : rel -> list (vtuple V)) : Prop :=
  forall r, islat r = false -> NoDup (R r).
Definition stored_exact {V} (st : @lstate V) : Prop :=
  forall r, NoDup (l_stored st r) /\ (forall i, In i (l_stored st r) <-> i < length (l_rows st r)).

(* ---------- the invariant of one evaluation of the rules of an SCC ---------- *)
Section Inv.
Context {V : Type}.
Variable I : linterp V.
Hypothesis Heq : veqb_ok I.
Variable islat : rel -> bool.
Variable jm : rel -> V -> V -> V * bool.
Variable shuffle : nat -> list nat -> list nat.
Variable swap_oracle : nat -> list nat -> list nat -> bool.
Variable dyn : list rel.
Variables St T D : rel -> list nat.
Variable R0 : rel -> list (vtuple V).
Hypothesis Hcov0 : forall r i, is_dyn dyn r = true -> i < length (R0 r) -> In i (T r) \/ In i (D r).

Record xinv (s : @istate V) : Prop := {
  xi_k : kinv islat dyn R0 s;
  xi_plain : forall r, islat r = false -> NoDup (i_rows s r);
  xi_len : forall r, length (R0 r) <= length (i_rows s r)
}.

Lemma xinv_tick : forall s, xinv s -> xinv (tick s).
Proof. intros s [H1 H2 H3]. constructor; auto. apply kinv_tick. exact H1. Qed.

(* the head update touches the rows of the head relation only, and never removes a row *)
Lemma head_rows_other : forall s (f : vfact V) q, q <> fst f -> i_rows (head_update I islat jm T D s f) q = i_rows s q.
Proof.
  intros s [r t] q Hq. cbn [fst] in Hq. unfold head_update. cbn [fst snd]. destruct (islat r).
  - destruct (orelse (find_key I (i_rows s r) (tkey t) (i_new s r))
                     (orelse (find_key I (i_rows s r) (tkey t) (D r)) (find_key I (i_rows s r) (tkey t) (T r)))) as [i|].
    + destruct (nth_error (i_rows s r) i) as [row|]; [|reflexivity].
      destruct (jm r (tval I row) (tval I t)) as [v' ch]. destruct ch; cbn [i_rows]; apply upd_other; exact Hq.
    + cbn [push_row i_rows]. apply upd_other. exact Hq.
  - destruct (mem_row I (i_rows s r) t (T r) || mem_row I (i_rows s r) t (D r) || mem_row I (i_rows s r) t (i_new s r)); [reflexivity|].
    cbn [push_row i_rows]. apply upd_other. exact Hq.
Qed.

Lemma head_rows_len : forall s (f : vfact V) q, length (i_rows s q) <= length (i_rows (head_update I islat jm T D s f) q).
Proof.
  intros s f q. destruct (Nat.eq_dec q (fst f)) as [->|Hne]; [|rewrite head_rows_other by exact Hne; lia].
  destruct f as [r t]. cbn [fst]. unfold head_update. cbn [fst snd]. destruct (islat r).
  - destruct (orelse (find_key I (i_rows s r) (tkey t) (i_new s r))
                     (orelse (find_key I (i_rows s r) (tkey t) (D r)) (find_key I (i_rows s r) (tkey t) (T r)))) as [i|].
    + destruct (nth_error (i_rows s r) i) as [row|]; [|lia].
      destruct (jm r (tval I row) (tval I t)) as [v' ch]. destruct ch; cbn [i_rows]; rewrite upd_same, set_nth_length; apply Nat.le_refl.
    + cbn [push_row i_rows]. rewrite upd_same, app_length. lia.
  - destruct (mem_row I (i_rows s r) t (T r) || mem_row I (i_rows s r) t (D r) || mem_row I (i_rows s r) t (i_new s r)); [lia|].
    cbn [push_row i_rows]. rewrite upd_same, app_length. lia.
Qed.

Lemma xinv_head : forall s f, xinv s -> is_dyn dyn (fst f) = true -> xinv (head_update I islat jm T D s f).
Proof.
  intros s f Hs Hd.
  pose proof (kinv_head I Heq islat jm shuffle swap_oracle dyn St T D R0 Hcov0 s f (xi_k s Hs) Hd) as Hk.
  destruct Hs as [H1 H2 H3]. constructor; [exact Hk| |].
  - intros q Hq. destruct (Nat.eq_dec q (fst f)) as [->|Hne]; [|rewrite head_rows_other by exact Hne; apply H2; exact Hq].
    clear Hk. destruct f as [r t]. cbn [fst] in *. unfold head_update. cbn [fst snd]. rewrite Hq.
    destruct (mem_row I (i_rows s r) t (T r) || mem_row I (i_rows s r) t (D r) || mem_row I (i_rows s r) t (i_new s r)) eqn:Em;
      [apply H2; exact Hq|].
    apply orb_false_elim in Em. destruct Em as [Em E3]. apply orb_false_elim in Em. destruct Em as [E1 E2].
    cbn [push_row i_rows]. rewrite upd_same. apply NoDup_app_intro_single; [apply H2; exact Hq|].
    intros Hin. apply In_nth_error in Hin. destruct Hin as [j Hj]. pose proof (nth_error_In_lt _ _ _ _ Hj) as Hjl.
    destruct (ki_cov _ _ _ _ H1 r j Hd Hjl) as [H|H].
    + destruct (Hcov0 r j Hd H) as [HT|HD].
      * assert (Hm : mem_row I (i_rows s r) t (T r) = true) by (apply (mem_row_spec I Heq); exists j; auto). congruence.
      * assert (Hm : mem_row I (i_rows s r) t (D r) = true) by (apply (mem_row_spec I Heq); exists j; auto). congruence.
    + assert (Hm : mem_row I (i_rows s r) t (i_new s r) = true) by (apply (mem_row_spec I Heq); exists j; auto). congruence.
  - intros q. pose proof (head_rows_len s f q) as Hl. pose proof (H3 q). lia.
Qed.

Lemma xinv_heads : forall hs (e : venv V) s, xinv s -> (forall h, In h hs -> is_dyn dyn (fst h) = true) -> xinv (heads_update I islat jm T D hs e s).
Proof.
  unfold heads_update. induction hs as [|h hs IH]; intros e s Hs Hd; cbn [fold_left]; auto.
  destruct (veval_head I e h) as [f|] eqn:Ef.
  - apply IH; [|intros h' Hh'; apply Hd; right; exact Hh']. apply xinv_head; auto.
    unfold veval_head in Ef. destruct (veval_terms I e (snd h)); [|discriminate]. injection Ef as <-. cbn. apply Hd. left. reflexivity.
  - apply IH; auto. intros h' Hh'. apply Hd. right. exact Hh'.
Qed.

Lemma xinv_variant : forall v s, xinv s -> (forall h, In h (v_heads v) -> is_dyn dyn (fst h) = true) ->
  xinv (eval_variant I islat jm shuffle swap_oracle dyn St T D s v).
Proof.
  intros v s Hs Hd. unfold eval_variant.
  destruct (Nat.ltb 1 (length (filter is_clause (v_items v))) &&
            negb match v_sj v with Some _ => Nat.eqb (length (filter is_clause (v_items v))) 2 | None => false end &&
            existsb (clause_empty dyn St T D) (v_items v)); auto.
  apply (from_P I shuffle swap_oracle dyn St T D xinv xinv_tick); auto. intros e s1 H1. apply xinv_heads; auto.
Qed.
End Inv.

(* ---------- SCCs ---------- *)
Section Run.
Context {V : Type}.
Variable I : linterp V.
Hypothesis Heq : veqb_ok I.
Variable islat : rel -> bool.
Variable jm : rel -> V -> V -> V * bool.
Variable shuffle : nat -> list nat -> list nat.
Variable swap_oracle : nat -> list nat -> list nat -> bool.
Variable arities : list (rel * nat).
Variable P : list rule.
Hypothesis Hnoagg : no_agg P = true.
Variable sc : pscc.
Hypothesis Hok : scc_ok arities P sc = true.
Let dyn := s_dyn sc.

Lemma update_indices_exact : forall (R : rel -> list (vtuple V)), stored_exact (update_indices R).
Proof.
  intros R r. cbn [update_indices l_rows l_stored]. split; [apply seq_NoDup|].
  intros i. rewrite in_seq. lia.
Qed.

Lemma iteration_x : forall St T D R tk, keys_ok islat R -> plain_nodup islat R ->
  (forall r i, is_dyn dyn r = true -> i < length (R r) -> In i (T r) \/ In i (D r)) ->
  xinv islat dyn R (scc_iteration I islat jm shuffle swap_oracle dyn St T D sc R tk).
Proof.
  intros St T D R tk HK HP Hcov. unfold scc_iteration.
  assert (H0 : xinv islat dyn R {| i_rows := R; i_new := fun _ => []; i_changed := false; i_tick := tk |}).
  { constructor; cbn [i_rows i_new i_changed]; auto.
    constructor; cbn [i_rows i_new i_changed]; auto. intros r i []. }
  assert (Hgen : forall vars s, incl vars (s_vars sc) -> xinv islat dyn R s ->
            xinv islat dyn R (fold_left (eval_variant I islat jm shuffle swap_oracle dyn St T D) vars s)).
  { induction vars as [|v vars IH]; intros s Hincl Hs; cbn [fold_left]; auto.
    apply IH; [intros x Hx; apply Hincl; right; exact Hx|].
    apply (xinv_variant I Heq islat jm shuffle swap_oracle dyn St T D R Hcov); auto.
    apply (heads_dyn arities P Hnoagg sc Hok). apply Hincl. left. reflexivity. }
  apply Hgen; auto. apply incl_refl.
Qed.

Lemma scc_loop_x : forall fuel St T D R tk Tf Rf tkf,
  keys_ok islat R -> plain_nodup islat R ->
  (forall r i, is_dyn dyn r = true -> i < length (R r) -> In i (T r) \/ In i (D r)) ->
  (forall r i, In i (T r) \/ In i (D r) -> i < length (R r)) ->
  (forall r, NoDup (T r)) ->
  scc_loop I islat jm shuffle swap_oracle fuel sc St T D R tk = Some (Tf, Rf, tkf) ->
  plain_nodup islat Rf /\ (forall r, NoDup (Tf r)) /\ (forall r i, In i (Tf r) -> i < length (Rf r))
  /\ (forall r i, is_dyn dyn r = true -> i < length (Rf r) -> In i (Tf r))
  /\ (forall r, is_dyn dyn r = false -> Rf r = R r).
Proof.
  induction fuel as [|fuel IH]; intros St T D R tk Tf Rf tkf HK HP Hcov Hbd HT Hrun; [discriminate|].
  cbn [scc_loop] in Hrun. fold dyn in Hrun. pose proof (iteration_x St T D R tk HK HP Hcov) as Hx.
  set (s := scc_iteration I islat jm shuffle swap_oracle dyn St T D sc R tk) in *.
  pose proof (xi_k _ _ _ _ Hx) as Hk.
  assert (Hcov' : forall r i, is_dyn dyn r = true -> i < length (i_rows s r) -> In i (merge T D r) \/ In i (i_new s r)).
  { intros r i Hr Hi. unfold merge. rewrite nunion_In. destruct (ki_cov _ _ _ _ Hk r i Hr Hi) as [H|H]; [left; apply Hcov; auto | right; exact H]. }
  assert (Hbd1 : forall r i, In i (merge T D r) -> i < length (i_rows s r)).
  { intros r i Hi. unfold merge in Hi. rewrite nunion_In in Hi. pose proof (Hbd r i Hi). pose proof (xi_len _ _ _ _ Hx r). lia. }
  assert (HT' : forall r, NoDup (merge T D r)).
  { intros r. unfold merge. apply nunion_NoDup. apply HT. }
  destruct (i_changed s) eqn:Ech.
  - destruct (IH St (merge T D) (i_new s) (i_rows s) (i_tick s) Tf Rf tkf) as [G1 [G2 [G3 [G4 G5]]]]; auto.
    + exact (ki_key _ _ _ _ Hk).
    + exact (xi_plain _ _ _ _ Hx).
    + intros r i [Hi|Hi]; [apply Hbd1; exact Hi | apply (ki_new _ _ _ _ Hk r i Hi)].
    + split; [exact G1|]. split; [exact G2|]. split; [exact G3|]. split; [exact G4|].
      intros r Hr. rewrite (G5 r Hr). apply (ki_sta _ _ _ _ Hk r Hr).
  - injection Hrun as <- <- <-. split; [exact (xi_plain _ _ _ _ Hx)|]. split; [exact HT'|]. split; [exact Hbd1|]. split.
    + intros r i Hr Hi. destruct (Hcov' r i Hr Hi) as [H|H]; [exact H|]. rewrite (ki_flag _ _ _ _ Hk Ech r) in H. destruct H.
    + intros r Hr. apply (ki_sta _ _ _ _ Hk r Hr).
Qed.

Lemma run_scc_exact : forall fuel (st st' : @lstate V),
  keys_ok islat (l_rows st) -> plain_nodup islat (l_rows st) -> stored_exact st ->
  run_scc I islat jm shuffle swap_oracle fuel sc st = Some st' ->
  plain_nodup islat (l_rows st') /\ stored_exact st'.
Proof.
  intros fuel st st' HK HP Hst Hrun. unfold run_scc in Hrun. fold dyn in Hrun.
  assert (Hcov : forall r i, is_dyn dyn r = true -> i < length (l_rows st r) ->
            In i ((fun _ : rel => @nil nat) r) \/ In i ((fun r => if is_dyn dyn r then l_stored st r else []) r)).
  { intros r i Hr Hi. right. rewrite Hr. apply (Hst r). exact Hi. }
  assert (Hbd : forall r i, In i ((fun _ : rel => @nil nat) r) \/ In i ((fun r => if is_dyn dyn r then l_stored st r else []) r) ->
            i < length (l_rows st r)).
  { intros r i [[]|Hi]. destruct (is_dyn dyn r); [apply (Hst r); exact Hi | destruct Hi]. }
  destruct (s_loop sc).
  - destruct (scc_loop I islat jm shuffle swap_oracle fuel sc (l_stored st) (fun _ => [])
               (fun r => if is_dyn dyn r then l_stored st r else []) (l_rows st) (l_tick st)) as [[[Tf Rf] tkf]|] eqn:El; [|discriminate].
    injection Hrun as <-. cbn [l_rows l_stored].
    destruct (scc_loop_x fuel _ _ _ _ _ Tf Rf tkf HK HP Hcov Hbd (fun _ => NoDup_nil nat) El) as [G1 [G2 [G3 [G4 G5]]]].
    split; [exact G1|]. intros r. cbn [l_rows l_stored]. destruct (is_dyn dyn r) eqn:Hd.
    + split; [apply G2|]. intros i. split; [apply G3 | apply G4; exact Hd].
    + rewrite (G5 r Hd). exact (Hst r).
  - injection Hrun as <-. cbn [l_rows l_stored].
    pose proof (iteration_x (l_stored st) _ _ (l_rows st) (l_tick st) HK HP Hcov) as Hx.
    set (s := scc_iteration I islat jm shuffle swap_oracle dyn (l_stored st) (fun _ => [])
                (fun r => if is_dyn dyn r then l_stored st r else []) sc (l_rows st) (l_tick st)) in *.
    pose proof (xi_k _ _ _ _ Hx) as Hk.
    split; [exact (xi_plain _ _ _ _ Hx)|]. intros r. cbn [l_rows l_stored]. destruct (is_dyn dyn r) eqn:Hd.
    + split.
      * unfold merge. apply nunion_NoDup. apply nunion_NoDup. constructor.
      * intros i. unfold merge. rewrite !nunion_In. rewrite Hd. split.
        -- intros [[[]|Hi]|Hi].
           ++ apply (Hst r) in Hi. pose proof (xi_len _ _ _ _ Hx r). lia.
           ++ apply (ki_new _ _ _ _ Hk r i Hi).
        -- intros Hi. destruct (ki_cov _ _ _ _ Hk r i Hd Hi) as [H|H]; [|right; exact H].
           left. right. apply (Hst r). exact H.
    + rewrite (ki_sta _ _ _ _ Hk r Hd). exact (Hst r).
Qed.
End Run.
