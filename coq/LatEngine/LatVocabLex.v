(* C03 tie vocabulary, part 3: LEXICOGRAPHIC tuple lattices (ascent_base/src/lattice/tuple.rs) as lattice columns, with
   Dual / Reverse / Option components at every position, nested, and under the wrappers Dual / Option / OrdLattice.
   These are the shipped lattices whose join_mut goes through `Ord::cmp` of the tuple (hence through `Ord::cmp` of every
   component type - for Dual<T> an impl that nothing else in the engine uses), while the ORDER the property speaks about
   is PartialOrd.  Codes (gen/c03_lex.py uses the same coding; radix 1024, flat components in order):
     20 (Dual<u32>, u32)             a * 1024 + b                      first downwards, then upwards
     21 (u32, Dual<u32>)             a * 1024 + b
     22 (Dual<u32>, Dual<u32>)       a * 1024 + b
     23 (u32, Dual<u32>, u32)        a * 1024^2 + b * 1024 + c
     24 (Dual<u32>, u32, Dual<u32>)  a * 1024^2 + b * 1024 + c
     25 (Reverse<u32>, u32)          a * 1024 + b
     26 (Option<u32>, Dual<u32>)     a * 1024 + b, a = 0 for None, n + 1 for Some n
     27 Dual<(u32, u32)>             a * 1024 + b                      the whole lexicographic order reversed (join_mut = the tuple's meet_mut)
     28 Option<(Dual<u32>, u32)>     None = 0, Some v = code v + 1
     29 ((Dual<u32>, u32), u32)      a * 1024^2 + b * 1024 + c         nested tuple
     30 OrdLattice<(Dual<u32>, u32)> a * 1024 + b                      join_mut through `<` of the tuple (PartialOrd)
   As in part 2 (LatVocabArr.v) join_mut is NOT written again: it is `jm (denote t)` of Lattice/LatModel.v (TupleLat:
   `match (&*self).cmp(&other) { Greater | Equal => false, Less => { *self = other; true } }` with clex_cmp = std's tuple
   Ord over the components' Ord::cmp, DualLat's flip_cmp ..), i.e. the model C16 ties to ascent_base, transported to codes.
   The monotone functions / upward-closed tests work on the decoded flat component lists. *)
From Coq Require Import List ZArith Bool Arith.
From AV Require Import Engine.Core.
From AV Require Import Engine.Vocab.
From AV Require Import Lattice.LatModel.
From AV Require Import LatEngine.LatSyntax.
From AV Require Import LatEngine.LatVocab.
From AV Require Import LatEngine.LatVocabArr.
Import ListNotations.
Open Scope Z_scope.

Definition t_lexdu : lty := LTuple (LCons (LDual u32) (LOne u32)).
Definition t_lexud : lty := LTuple (LCons u32 (LOne (LDual u32))).
Definition t_lexdd : lty := LTuple (LCons (LDual u32) (LOne (LDual u32))).
Definition t_lexudu : lty := LTuple (LCons u32 (LCons (LDual u32) (LOne u32))).
Definition t_lexdud : lty := LTuple (LCons (LDual u32) (LCons u32 (LOne (LDual u32)))).
Definition t_lexru : lty := LTuple (LCons (LReverse u32) (LOne u32)).
Definition t_lexod : lty := LTuple (LCons (LOption u32) (LOne (LDual u32))).
Definition t_dlexuu : lty := LDual (LTuple (LCons u32 (LOne u32))).
Definition t_olexdu : lty := LOption t_lexdu.
Definition t_lexnest : lty := LTuple (LCons t_lexdu (LOne u32)).
Definition t_ordlexdu : lty := LOrd t_lexdu.

(* ---------------------------------------------------------------- codes *)
Definition kd2 (c : Z) : list Z := [c / 1024; c mod 1024].
Definition kd3 (c : Z) : list Z := [c / 1048576; (c / 1024) mod 1024; c mod 1024].
Definition kenc (l : list Z) : Z := fold_left (fun acc x => acc * 1024 + x) l 0.

Definition p2 (c : Z) : Z * Z := (c / 1024, c mod 1024).
Definition u2 (v : Z * Z) : Z := kenc [fst v; snd v].
Definition p3 (c : Z) : Z * (Z * Z) := (c / 1048576, ((c / 1024) mod 1024, c mod 1024)).
Definition u3 (v : Z * (Z * Z)) : Z := kenc [fst v; fst (snd v); snd (snd v)].
Definition n3 (c : Z) : (Z * Z) * Z := ((c / 1048576, (c / 1024) mod 1024), c mod 1024).
Definition un3 (v : (Z * Z) * Z) : Z := kenc [fst (fst v); snd (fst v); snd v].
(* an Option<u32> COMPONENT: None = 0, Some n = n + 1 *)
Definition oc (a : Z) : option Z := if a =? 0 then None else Some (a - 1).
Definition uoc (v : option Z) : Z := match v with None => 0 | Some n => n + 1 end.
Definition po2 (c : Z) : option Z * Z := (oc (c / 1024), c mod 1024).
Definition uo2 (v : option Z * Z) : Z := kenc [uoc (fst v); snd v].
(* Option around a pair *)
Definition op2 (c : Z) : option (Z * Z) := if c =? 0 then None else Some (p2 (c - 1)).
Definition uop2 (v : option (Z * Z)) : Z := match v with None => 0 | Some x => u2 x + 1 end.

Definition lat3_jm (ty : nat) : Z -> Z -> Z * bool :=
  match ty with
  | 20%nat => via (T := Z * Z) (jm (denote t_lexdu)) p2 u2
  | 21%nat => via (T := Z * Z) (jm (denote t_lexud)) p2 u2
  | 22%nat => via (T := Z * Z) (jm (denote t_lexdd)) p2 u2
  | 23%nat => via (T := Z * (Z * Z)) (jm (denote t_lexudu)) p3 u3
  | 24%nat => via (T := Z * (Z * Z)) (jm (denote t_lexdud)) p3 u3
  | 25%nat => via (T := Z * Z) (jm (denote t_lexru)) p2 u2
  | 26%nat => via (T := option Z * Z) (jm (denote t_lexod)) po2 uo2
  | 27%nat => via (T := Z * Z) (jm (denote t_dlexuu)) p2 u2
  | 28%nat => via (T := option (Z * Z)) (jm (denote t_olexdu)) op2 uop2
  | 29%nat => via (T := (Z * Z) * Z) (jm (denote t_lexnest)) n3 un3
  | 30%nat => via (T := Z * Z) (jm (denote t_ordlexdu)) p2 u2
  | _ => lat2_jm ty
  end.

(* ---------------------------------------------------------------- vocabulary on flat component lists *)
(* the lexicographic type number k of gen/c03_lex.py LEX: type id 20 + k, function ids 700 + 10 k + op, predicate ids 850 + 10 k + op *)
Definition lty_of (k : nat) : nat := (20 + k)%nat.
Definition lncomp (ty : nat) : nat := match ty with 23%nat | 24%nat | 29%nat => 3%nat | _ => 2%nat end.
Definition lisopt (ty : nat) : bool := Nat.eqb ty 28.
(* direction of every flat component IN THE ORDER OF THE TYPE: true = upwards (an Option<u32> component is upwards on its codes) *)
Definition ldirs (ty : nat) : list bool :=
  match ty with
  | 20%nat | 25%nat | 28%nat | 30%nat => [false; true]
  | 21%nat | 26%nat => [true; false]
  | 22%nat | 27%nat => [false; false]
  | 23%nat => [true; false; true]
  | 24%nat => [false; true; false]
  | 29%nat => [false; true; true]
  | _ => [true; true]
  end.
Definition ldec (ty : nat) (c : Z) : option (list Z) :=
  if lisopt ty then (if c =? 0 then None else Some (kd2 (c - 1)))
  else Some (if Nat.eqb (lncomp ty) 3 then kd3 c else kd2 c).
Definition lenc (ty : nat) (v : option (list Z)) : Z :=
  match v with None => 0 | Some l => if lisopt ty then kenc l + 1 else kenc l end.

(* lexicographic order of component lists with directions: a <= b *)
Fixpoint lexle (ds : list bool) (a b : list Z) : bool :=
  match ds, a, b with
  | d :: ds', x :: a', y :: b' => if x =? y then lexle ds' a' b' else (if d then x <? y else y <? x)
  | _, _, _ => true
  end.
Fixpoint zlist_eqb (a b : list Z) : bool :=
  match a, b with
  | [], [] => true
  | x :: a', y :: b' => (x =? y) && zlist_eqb a' b'
  | _, _ => false
  end.

(* op 2  via(l, w, x): the first component advanced by w (downwards component: c + w; upwards: min(c + w, CAP)),
   every other component replaced by the plain value x (the "cost + witness" idiom) *)
Definition adv1 (d : bool) (c w : Z) : Z := if d then Z.min (c + w) CAP else c + w.
Definition vias (ds : list bool) (cs : list Z) (w x : Z) : list Z :=
  match ds, cs with
  | d :: _, c :: rest => adv1 d c w :: map (fun _ => x) rest
  | _, _ => cs
  end.
(* op 3  adv(l, w): components in order; while every earlier component moved injectively (c + w on a downwards one) the
   next one is advanced as well; after a saturating move (min(c + w, CAP) on an upwards one) the rest becomes w *)
Fixpoint advs (strict : bool) (ds : list bool) (cs : list Z) (w : Z) : list Z :=
  match ds, cs with
  | d :: ds', c :: cs' =>
      if strict then (if d then Z.min (c + w) CAP :: advs false ds' cs' w else (c + w) :: advs true ds' cs' w)
      else w :: advs false ds' cs' w
  | _, _ => []
  end.
(* op 4  keep(l, w): every component but the last kept, the last one moved up in its own direction (saturating) *)
Fixpoint keeps (ds : list bool) (cs : list Z) (w : Z) : list Z :=
  match ds, cs with
  | [d], [c] => [if d then Z.min (c + w) CAP else Z.max (c - w) 0]
  | _ :: ds', c :: cs' => c :: keeps ds' cs' w
  | _, _ => []
  end.
(* op 5  merge(a, b): component-wise sums under the same injective-prefix rule, the rest 0 *)
Fixpoint merges (strict : bool) (ds : list bool) (xs ys : list Z) : list Z :=
  match ds, xs, ys with
  | d :: ds', x :: xs', y :: ys' =>
      if strict then (if d then Z.min (x + y) CAP :: merges false ds' xs' ys' else (x + y) :: merges true ds' xs' ys')
      else 0 :: merges false ds' xs' ys'
  | _, _, _ => []
  end.

Definition lex_fun (ty op : nat) (l : list Z) : Z :=
  match op with
  | 0%nat => lenc ty (Some (firstn (lncomp ty) l))
  | 2%nat => lenc ty (option_map (fun cs => vias (ldirs ty) cs (arg 1 l) (arg 2 l)) (ldec ty (arg 0 l)))
  | 3%nat => lenc ty (option_map (fun cs => advs true (ldirs ty) cs (arg 1 l)) (ldec ty (arg 0 l)))
  | 4%nat => lenc ty (option_map (fun cs => keeps (ldirs ty) cs (arg 1 l)) (ldec ty (arg 0 l)))
  | 5%nat => lenc ty (match ldec ty (arg 0 l), ldec ty (arg 1 l) with
                       | Some x, Some y => Some (merges true (ldirs ty) x y)
                       | _, _ => None
                       end)
  | _ => arg 0 l
  end.
(* predicates: 0 ge(l, p..): l >= of(p..)    1 first_hi(l): the first component is as high as 3 in its own direction
               2 gt(l, p..): l > of(p..) *)
Definition lex_pred (ty op : nat) (l : list Z) : bool :=
  match ldec ty (arg 0 l) with
  | None => false
  | Some cs =>
      let t := firstn (lncomp ty) (tl l) in
      match op with
      | 0%nat => lexle (ldirs ty) t cs
      | 1%nat => hi_in (hd true (ldirs ty)) (hd 0 cs) 3
      | _ => lexle (ldirs ty) t cs && negb (zlist_eqb t cs)
      end
  end.

Definition lv3_fun (f : nat) (l : list Z) : Z :=
  if Nat.leb 700 f && Nat.ltb f 850 then lex_fun (lty_of (Nat.div (f - 700) 10)) (Nat.modulo (f - 700) 10) l else lv2_fun f l.
Definition lv3_pred (p : nat) (l : list Z) : bool :=
  if Nat.leb 850 p && Nat.ltb p 1000 then lex_pred (lty_of (Nat.div (p - 850) 10)) (Nat.modulo (p - 850) 10) l else lv2_pred p l.
Definition lv3_part (f : nat) (l : list Z) : option Z :=
  if Nat.leb 700 f && Nat.ltb f 850 then Some (lv3_fun f l) else lv2_part f l.

Definition lv3_interp : linterp Z :=
  {| vconst := fun c => c; vfun := lv3_fun; vpred := lv3_pred; vpart := lv3_part; vgen := lv_gen; veqb := Z.eqb |}.

Definition lv3_jm (lats : list (rel * nat)) (r : rel) : Z -> Z -> Z * bool :=
  match lv_type lats r with Some ty => lat3_jm ty | None => fun a _ => (a, false) end.
