(* C03 - positional environments over an arbitrary value type: lookup / bind, domains, extension order,
   canonical form, monotonicity of evaluation (Engine/EnvLemmas.v restated over V; the purely syntactic
   lemmas about memv / subv are used from there). *)
From Coq Require Import List ZArith Bool Arith Lia.
From AV Require Import Engine.Core.
From AV Require Import Engine.Eval.
From AV Require Import Engine.Validate.
From AV Require Engine.EnvLemmas.
From AV Require Import LatEngine.LatSyntax.
Import ListNotations.

Section Env.
Context {V : Type}.

(* ---------- vlookup / vbind ---------- *)
Lemma vlookup_nil : forall x, vlookup ([] : venv V) x = None.
Proof. intros x; unfold vlookup; destruct x; reflexivity. Qed.

Lemma vlookup_bind_eq : forall x (v : V) (e : venv V), vlookup (vbind x v e) x = Some v.
Proof.
  unfold vlookup. induction x as [|n IH]; intros v e; destruct e as [|o e']; cbn; auto.
Qed.

Lemma vlookup_bind_neq : forall x y (v : V) (e : venv V), x <> y -> vlookup (vbind x v e) y = vlookup e y.
Proof.
  unfold vlookup. induction x as [|n IH]; intros y v e Hxy; destruct e as [|o e']; destruct y as [|m]; cbn; auto;
    try congruence.
  - destruct m; reflexivity.
  - rewrite IH by congruence. destruct m; reflexivity.
Qed.

Lemma vbind_not_nil : forall x (v : V) e, vbind x v e <> [].
Proof. intros x v e; destruct x; destruct e; cbn; congruence. Qed.

(* ---------- boolean domain ---------- *)
Definition vbound (e : venv V) (x : var) : bool := match vlookup e x with Some _ => true | None => false end.
Definition vdom (e : venv V) (B : list var) : Prop := forall x, vbound e x = memv x B.

Lemma vdom_nil : vdom ([] : venv V) [].
Proof. intros x; unfold vbound; rewrite vlookup_nil; reflexivity. Qed.

Lemma vbound_bind : forall (e : venv V) x (v : V) y, vbound (vbind x v e) y = Nat.eqb y x || vbound e y.
Proof.
  intros e x v y; unfold vbound. destruct (Nat.eqb y x) eqn:E.
  - apply Nat.eqb_eq in E; subst. rewrite vlookup_bind_eq; reflexivity.
  - apply Nat.eqb_neq in E. rewrite vlookup_bind_neq by congruence. reflexivity.
Qed.

Lemma vdom_bind : forall (e : venv V) B x (v : V), vdom e B -> vdom (vbind x v e) (x :: B).
Proof. intros e B x v H y. rewrite vbound_bind, EnvLemmas.memv_cons, H; reflexivity. Qed.

Lemma vdom_lookup_none : forall (e : venv V) B x, vdom e B -> memv x B = false -> vlookup e x = None.
Proof. intros e B x H Hm. specialize (H x). unfold vbound in H. rewrite Hm in H. destruct (vlookup e x); congruence. Qed.

Lemma vdom_lookup_some : forall (e : venv V) B x, vdom e B -> memv x B = true -> exists v, vlookup e x = Some v.
Proof. intros e B x H Hm. specialize (H x). unfold vbound in H. rewrite Hm in H. destruct (vlookup e x); try congruence; eauto. Qed.

(* ---------- extension order ---------- *)
Definition vle (e e' : venv V) : Prop := forall x v, vlookup e x = Some v -> vlookup e' x = Some v.

Lemma vle_refl : forall (e : venv V), vle e e.
Proof. intros e x v H; exact H. Qed.

Lemma vle_trans : forall (a b c : venv V), vle a b -> vle b c -> vle a c.
Proof. intros a b c H1 H2 x v H; auto. Qed.

Lemma vle_bind : forall (e : venv V) x (v : V), vlookup e x = None -> vle e (vbind x v e).
Proof.
  intros e x v Hn y w Hy. destruct (Nat.eq_dec x y) as [->|Hne].
  - congruence.
  - rewrite vlookup_bind_neq; auto.
Qed.

Lemma vle_bind_l : forall (e : venv V) (e' : venv V) x (v : V), vle e e' -> vlookup e' x = Some v -> vle (vbind x v e) e'.
Proof.
  intros e e' x v Hle Hx y w Hy. destruct (Nat.eq_dec x y) as [->|Hne].
  - rewrite vlookup_bind_eq in Hy. congruence.
  - rewrite vlookup_bind_neq in Hy; auto.
Qed.

(* ---------- canonical environments: no trailing None ---------- *)
Fixpoint vcanon (e : venv V) : Prop :=
  match e with [] => True | o :: e' => vcanon e' /\ (e' = [] -> o <> None) end.

Lemma vcanon_bind : forall x (v : V) (e : venv V), vcanon e -> vcanon (vbind x v e).
Proof.
  induction x as [|n IH]; intros v e Hc; destruct e as [|o e']; cbn in *.
  - split; auto; congruence.
  - destruct Hc as [Hc _]; split; auto; congruence.
  - split. apply IH; exact I. intros H; exfalso; eapply vbind_not_nil; eauto.
  - destruct Hc as [Hc _]; split. apply IH; auto. intros H; exfalso; eapply vbind_not_nil; eauto.
Qed.

Lemma vcanon_all_none : forall (e : venv V), vcanon e -> (forall x, vlookup e x = None) -> e = [].
Proof.
  induction e as [|o e IH]; intros Hc Hn; auto.
  cbn in Hc; destruct Hc as [Hc Ho].
  assert (e = []) as He.
  { apply IH; auto. intros x. specialize (Hn (S x)). exact Hn. }
  specialize (Hn O). unfold vlookup in Hn; cbn in Hn. exfalso; apply Ho; auto.
Qed.

Lemma vcanon_ext : forall (e : venv V) (e' : venv V), vcanon e -> vcanon e' -> (forall x, vlookup e x = vlookup e' x) -> e = e'.
Proof.
  induction e as [|o e IH]; intros e' Hc Hc' Hx.
  - symmetry; apply vcanon_all_none; auto. intros x; rewrite <- Hx; apply vlookup_nil.
  - destruct e' as [|o' e'].
    + apply vcanon_all_none; auto. intros x; rewrite Hx; apply vlookup_nil.
    + cbn in Hc, Hc'. destruct Hc as [Hc _], Hc' as [Hc' _]. f_equal.
      * exact (Hx O).
      * apply IH; auto. intros x; exact (Hx (S x)).
Qed.

Lemma vle_antisym : forall (e : venv V) (e' : venv V), vcanon e -> vcanon e' -> vle e e' -> vle e' e -> e = e'.
Proof.
  intros e e' Hc Hc' H1 H2. apply vcanon_ext; auto. intros x.
  destruct (vlookup e x) as [v|] eqn:E1.
  - symmetry; apply H1; auto.
  - destruct (vlookup e' x) as [w|] eqn:E2; auto. apply H2 in E2. congruence.
Qed.

(* ---------- evaluation: definedness, monotonicity, locality ---------- *)
Section WithI.
Variable I : linterp V.

Lemma veval_vars_defined : forall (e : venv V) B xs, vdom e B -> subv xs B = true -> exists vs, veval_vars e xs = Some vs.
Proof.
  intros e B xs Hd. induction xs as [|x xs IH]; intros Hs; cbn in *.
  - eauto.
  - apply andb_true_iff in Hs; destruct Hs as [Hx Hs].
    destruct (vdom_lookup_some _ _ _ Hd Hx) as [v Hv]. destruct (IH Hs) as [vs Hvs].
    rewrite Hv, Hvs; eauto.
Qed.

Lemma veval_vars_le : forall (e : venv V) (e' : venv V) xs vs, vle e e' -> veval_vars e xs = Some vs -> veval_vars e' xs = Some vs.
Proof.
  intros e e' xs; induction xs as [|x xs IH]; intros vs Hle H; cbn in *; auto.
  destruct (vlookup e x) as [v|] eqn:Ex; try discriminate.
  destruct (veval_vars e xs) as [ws|] eqn:Ev; try discriminate.
  rewrite (Hle _ _ Ex), (IH _ Hle eq_refl). exact H.
Qed.

Lemma veval_vars_agree : forall (e : venv V) (e0 : venv V) xs, (forall x, In x xs -> vlookup e0 x = vlookup e x) -> veval_vars e0 xs = veval_vars e xs.
Proof.
  intros e e0 xs; induction xs as [|x xs IH]; intros H; cbn; auto.
  rewrite H by (left; auto). rewrite IH; auto. intros y Hy; apply H; right; auto.
Qed.

Lemma veval_term_defined : forall (e : venv V) B t, vdom e B -> subv (term_vars t) B = true -> exists v, veval_term I e t = Some v.
Proof.
  intros e B t Hd Hs; destruct t as [x|c|f xs]; cbn in *.
  - rewrite andb_true_r in Hs. eapply vdom_lookup_some; eauto.
  - eauto.
  - destruct (veval_vars_defined _ _ _ Hd Hs) as [vs Hvs]. rewrite Hvs; cbn; eauto.
Qed.

Lemma veval_term_le : forall (e : venv V) (e' : venv V) t (v : V), vle e e' -> veval_term I e t = Some v -> veval_term I e' t = Some v.
Proof.
  intros e e' t v Hle H; destruct t as [x|c|f xs]; cbn in *; auto.
  destruct (veval_vars e xs) as [vs|] eqn:Ev; cbn in H; try discriminate.
  rewrite (veval_vars_le _ _ _ _ Hle Ev). exact H.
Qed.

Lemma veval_term_agree : forall (e : venv V) (e0 : venv V) t, (forall x, In x (term_vars t) -> vlookup e0 x = vlookup e x) ->
  veval_term I e0 t = veval_term I e t.
Proof.
  intros e e0 t H; destruct t as [x|c|f xs]; cbn in *; auto.
  rewrite (veval_vars_agree e e0 xs H). reflexivity.
Qed.

Lemma veval_terms_le : forall (e : venv V) (e' : venv V) ts vs, vle e e' -> veval_terms I e ts = Some vs -> veval_terms I e' ts = Some vs.
Proof.
  intros e e' ts; induction ts as [|t ts IH]; intros vs Hle H; cbn in *; auto.
  destruct (veval_term I e t) as [v|] eqn:Et; try discriminate.
  destruct (veval_terms I e ts) as [ws|] eqn:Ets; try discriminate.
  rewrite (veval_term_le _ _ _ _ Hle Et), (IH _ Hle eq_refl). exact H.
Qed.

End WithI.

End Env.
