(* C02, lattice half - why the model of a parallel iteration (LatParModel.par_lat_iteration) needs its CAUSALITY condition.

   [causal] says that a contribution is derived from values the rows had BEFORE its head update starts.  The weaker
   condition "... from values the rows have at some moment of the iteration" (equivalently: between the value at the start and
   the value at the end of the iteration) looks like a harmless over-approximation of concurrent reads, but it makes the model
   admit runs no execution can produce, whose result is NOT the least fixed point: a contribution can justify itself through
   its own future join.  Witness: lattice x(Dual<u32>) with the rule  x(v) <-- x(v)  and the input x = 5 (Dual: smaller numbers
   are higher).  The only fixed point above the input is x = 5.  In the acausal model worker 0 contributes x = 0, "derived" from
   row 0 read with the value 0 - the value the row has after that very contribution has been joined; the exhaustive evaluation
   reads the row with that value as well; the iteration ends with x = 0.  ([acausal_run_not_least]; with [causal] the theorem
   LatParMain.par_lat_run_sound excludes it.) *)
From Coq Require Import List ZArith Bool Arith Lia.
From AV Require Import Engine.Core.
From AV Require Import Engine.Eval.
From AV Require Import Engine.Validate.
From AV Require Import Engine.Naive.
From AV Require Engine.ParLat.
From AV Require Import LatEngine.LatSyntax.
From AV Require Import LatEngine.LatEval.
From AV Require Import LatEngine.LatPlan.
From AV Require Import LatEngine.LatSem.
From AV Require Import LatEngine.LatVocab.
From AV Require Import LatEngine.LatExample.
From AV Require Import LatEngine.LatParModel.
Import ListNotations.
Open Scope Z_scope.

Section Acausal.
Context {V : Type}.
Variable I : linterp V.
Variable islat : rel -> bool.
Variable jm : rel -> V -> V -> V * bool.
Variable sc : pscc.
Variables St T D : rel -> list nat.
Variable R : rel -> list (vtuple V).

(* LatParModel.causal with [seen pre] weakened to [seen sched] *)
Definition acausal mx kfirst work (Cp : rel -> list (vtuple V)) (sched : list (rel * nat)) : Prop :=
  (forall pre r j post kv, sched = pre ++ (r, j) :: post -> latdyn islat sc r = true ->
     pops (grun I jm T D R mx kfirst (ginit I R work) pre r) j = Some kv ->
     derived I sc St T D (seen I islat jm sc T D R mx kfirst work sched) (r, torow kv))
  /\ (forall r t, islat r = false -> In t (Cp r) -> derived I sc St T D (seen I islat jm sc T D R mx kfirst work sched) (r, t)).

(* LatParModel.par_lat_iteration with [causal] replaced by [acausal] *)
Definition par_lat_iteration_acausal (R' : rel -> list (vtuple V)) (N' : rel -> list nat) (ch' : bool) : Prop :=
  exists mx kfirst work Cp sched (A : rel -> list (vtuple V)),
    let g := grun I jm T D R mx kfirst (ginit I R work) sched in
    acausal mx kfirst work Cp sched /\ exhaustive I islat jm sc St T D R mx kfirst work Cp sched
    /\ (forall r, latdyn islat sc r = true ->
          ParLat.finished (g r) = true /\ R' r = map torow (ParLat.lrows (g r)) /\ N' r = ParLat.lother (g r))
    /\ (forall r, islat r = false -> is_dyn (s_dyn sc) r = true ->
          R' r = R r ++ A r /\ NoDup (A r)
          /\ (forall t, In t (A r) <-> In t (Cp r) /\ mem_row I (R r) t (T r) || mem_row I (R r) t (D r) = false)
          /\ N' r = seq (length (R r)) (length (A r)))
    /\ (forall r, is_dyn (s_dyn sc) r = false -> R' r = R r /\ N' r = [])
    /\ ch' = existsb (fun r => if islat r then ParLat.lchg (g r) else negb (is_nil (A r))) (s_dyn sc).
End Acausal.

(* ---------- the witness ---------- *)
Definition cx_arities : list (rel * nat) := [(1%nat, 1%nat)].
Definition cx_prog : list rule := [{| heads := [(1%nat, [TVar 0%nat])]; body := [BClause 1%nat [TVar 0%nat] []] |}].
Definition cx_var : variant :=
  {| v_rule := 0%nat; v_heads := [(1%nat, [TVar 0%nat])]; v_items := [PClause 1%nat [TVar 0%nat] [] [] VDelta]; v_sj := None; v_reord := false |}.
Definition cx_scc : pscc := {| s_vars := [cx_var]; s_dyn := [1%nat]; s_loop := true |}.
Definition cx_input : rel -> list (list Z) := fun r => if Nat.eqb r 1 then [[5]] else [].
Definition cx_bad : rel -> list (list Z) := fun r => if Nat.eqb r 1 then [[0]] else [].

Lemma cx_checks : validate cx_arities cx_prog [cx_scc] = true /\ lat_plan_ok sp_islat cx_arities [cx_scc] = true /\ no_agg cx_prog = true.
Proof. vm_compute. repeat split. Qed.

Definition cx_St : rel -> list nat := l_stored (update_indices cx_input).
Definition cx_T : rel -> list nat := fun _ => [].
Definition cx_D : rel -> list nat := fun r => if is_dyn [1%nat] r then l_stored (update_indices cx_input) r else [].
Definition cx_work : rel -> list (list (list Z * Z)) := fun r => if Nat.eqb r 1 then [[([], 0)]] else [].
Definition cx_sched : list (rel * nat) := repeat (1%nat, 0%nat) 6.
Definition cx_N : rel -> list nat := fun r => if Nat.eqb r 1 then [0%nat] else [].

Lemma cx_split_position : forall (A : Type) (l pre post : list A) x, l = pre ++ x :: post ->
  exists n, pre = firstn n l /\ nth_error l n = Some x.
Proof.
  intros A l pre post x ->. exists (length pre). split.
  - rewrite firstn_app, Nat.sub_diag, firstn_all. cbn. rewrite app_nil_r. reflexivity.
  - rewrite nth_error_app2 by lia. rewrite Nat.sub_diag. reflexivity.
Qed.

Ltac cx_positions n Hn Hp k :=
  lazymatch k with
  | O => idtac
  | S ?k' => destruct n as [|n]; [cbn in Hn; injection Hn as <-; vm_compute in Hp; try discriminate | cx_positions n Hn Hp k']
  end.

(* the acausal model admits an iteration from x = 5 to x = 0 *)
Lemma acausal_iteration : par_lat_iteration_acausal lv_interp sp_islat sp_jm cx_scc cx_St cx_T cx_D cx_input cx_bad cx_N true.
Proof.
  exists (fun _ _ => 0%nat), (fun _ => true), cx_work, (fun _ => []), cx_sched, (fun _ => []). cbv zeta.
  assert (Hseen : seen lv_interp sp_islat sp_jm cx_scc cx_T cx_D cx_input (fun _ _ => 0%nat) (fun _ => true) cx_work cx_sched 1%nat 0%nat [0]).
  { exists cx_sched, []. split; reflexivity. }
  split; [|split; [|split; [|split; [|split]]]].
  - split.
    + intros pre r j post kv Hs Hr Hp. unfold latdyn in Hr. apply andb_true_iff in Hr. destruct Hr as [_ Hr]. cbn in Hr.
      rewrite orb_false_r in Hr. apply Nat.eqb_eq in Hr. subst r.
      destruct (cx_split_position _ _ _ _ _ Hs) as [n [-> Hn]]. cx_positions n Hn Hp 6%nat.
      * (* the contribution x = 0 is "derived" from the value 0 row 0 only has after this contribution has been joined *)
        injection Hp as <-. exists cx_var, (v_items cx_var), [Some 0], (1%nat, [TVar 0%nat]).
        split; [left; reflexivity|]. split; [left; reflexivity|]. split; [|split; [left; reflexivity | reflexivity]].
        eapply sato_clause with (i := 0%nat) (t := [0]); [vm_compute; auto | exact Hseen | vm_compute; reflexivity | reflexivity | apply sato_nil].
      * destruct n; discriminate.
    + intros r t _ [].
  - intros v Hv _. destruct Hv as [<-|[]]. exists (v_items cx_var). split; [left; reflexivity|].
    apply cov_clause. intros i Hi. vm_compute in Hi. destruct Hi as [<-|[]].
    exists [0]. split; [exact Hseen|].
    intros e1 e2 H1 H2. vm_compute in H1. injection H1 as <-. vm_compute in H2. injection H2 as <-.
    apply cov_nil. intros h f Hh Hf. destruct Hh as [<-|[]]. vm_compute in Hf. injection Hf as <-. vm_compute. auto.
  - intros r Hr. unfold latdyn in Hr. apply andb_true_iff in Hr. destruct Hr as [_ Hr]. cbn in Hr. rewrite orb_false_r in Hr.
    apply Nat.eqb_eq in Hr. subst r. vm_compute. repeat split.
  - intros r Hl Hd. cbn in Hd. rewrite orb_false_r in Hd. apply Nat.eqb_eq in Hd. subst r. discriminate.
  - intros r Hd. cbn in Hd. rewrite orb_false_r in Hd. unfold cx_bad, cx_N, cx_input. rewrite Hd. split; reflexivity.
  - vm_compute. reflexivity.
Qed.

(* ... although the input itself is a directed set closed under the rule, and the new row is not below it *)
Theorem acausal_run_not_least :
  exists R' N' ch',
    par_lat_iteration_acausal lv_interp sp_islat sp_jm cx_scc cx_St cx_T cx_D cx_input R' N' ch'
    /\ directed lv_interp sp_islat sp_lle (dbof cx_input)
    /\ closedH lv_interp sp_islat sp_lle cx_prog (dbof cx_input)
    /\ exists row, In row (R' 1%nat) /\ ~ below lv_interp sp_islat sp_lle (dbof cx_input) (1%nat, row).
Proof.
  exists cx_bad, cx_N, true. split; [exact acausal_iteration|]. split; [|split].
  - intros r t1 t2 Hl H1 H2 _ _. unfold dbof, cx_input in *. destruct (Nat.eqb r 1); [|destruct H1].
    destruct H1 as [<-|[]], H2 as [<-|[]]. exists [5]. split; [left; reflexivity|].
    split; unfold tle; rewrite Hl; cbn; unfold sp_lle; repeat split; lia.
  - intros [r t] [ru [e [h [Hru [Hsat [Hh Hf]]]]]]. destruct Hru as [<-|[]]. cbn [body heads] in *. destruct Hh as [<-|[]].
    inversion Hsat as [|? ? ? ? ? t0 e1 e2 e3 Hdb Hm Hc Hrest| |]; subst. inversion Hrest; subst.
    unfold dbof, cx_input in Hdb. cbn in Hdb. destruct Hdb as [<-|[]].
    vm_compute in Hm. injection Hm as <-. vm_compute in Hc. injection Hc as <-. vm_compute in Hf. injection Hf as <- <-.
    exists [5]. split; [left; reflexivity|]. cbn [fst snd]. unfold tle. cbn. unfold sp_lle. repeat split; lia.
  - exists [0]. split; [left; reflexivity|]. intros [t' [Hin Hle]]. cbn [fst snd] in *. unfold dbof, cx_input in Hin. cbn in Hin.
    destruct Hin as [<-|[]]. unfold tle in Hle. cbn in Hle. unfold sp_lle in Hle. destruct Hle as [_ [_ Hle]]. cbn in Hle. lia.
Qed.
