(* C03 - specification: what "least fixed point per key" means for programs mixing relations and lattices.

   Interpretations are sets of facts (rel -> tuple -> Prop, possibly infinite).  A rule instance is a
   satisfaction of the rule body by full matching (as in Engine/Sem.v, over an arbitrary value type).
   Facts are ordered per key: for a lattice relation, same key (all columns but the last) and lattice order
   on the last column; for a plain relation, equality.  Sets of facts are compared in the Hoare order
   (every fact of the left is below some fact of the right).  A set is closed when every derived fact is
   below it.  The least fixed point is the least closed, per-key directed set above the input; for the
   result of a run it is a finite map key -> value. *)
From Coq Require Import List ZArith Bool Arith.
From AV Require Import Engine.Core.
From AV Require Import Engine.Validate.
From AV Require Import LatEngine.LatSyntax.
Import ListNotations.

(* a lattice given by its order (a is an element iff le a a) and its in-place join (new value, changed flag) *)
Record lat_laws {V : Type} (le : V -> V -> Prop) (jm : V -> V -> V * bool) : Prop := {
  ll_dom : forall a b, le a b -> le a a /\ le b b;
  ll_trans : forall a b c, le a b -> le b c -> le a c;
  ll_antisym : forall a b, le a b -> le b a -> a = b;
  ll_ub_l : forall a b, le a a -> le b b -> le a (fst (jm a b));
  ll_ub_r : forall a b, le a a -> le b b -> le b (fst (jm a b));
  ll_least : forall a b c, le a c -> le b c -> le (fst (jm a b)) c;
  (* join_mut may say "unchanged" only when the argument was already below the receiver *)
  ll_flag : forall a b, le a a -> le b b -> snd (jm a b) = false -> le b a
}.

Section Sem.
Context {V : Type}.
Variable I : linterp V.
Variable islat : rel -> bool.
Variable lle : rel -> V -> V -> Prop.

Definition db := rel -> vtuple V -> Prop.
Definition dbof (R : rel -> list (vtuple V)) : db := fun r t => In t (R r).

(* satisfaction of a rule body, left to right *)
Inductive sat (DB : db) : list bitem -> venv V -> venv V -> Prop :=
| sat_nil : forall e, sat DB [] e e
| sat_clause : forall r args cs rest e t e1 e2 e3,
    DB r t -> vmatch_args I e args t = Some e1 -> vsat_conds I e1 cs = Some e2 -> sat DB rest e2 e3 ->
    sat DB (BClause r args cs :: rest) e e3
| sat_cond : forall c rest e e1 e2,
    vsat_cond I e c = Some e1 -> sat DB rest e1 e2 -> sat DB (BCond c :: rest) e e2
| sat_gen : forall x g xs rest e vs v e2,
    veval_vars e xs = Some vs -> In v (vgen I g vs) -> sat DB rest (vbind x v e) e2 ->
    sat DB (BGen x g xs :: rest) e e2.

Definition derives (P : list rule) (DB : db) (f : vfact V) : Prop :=
  exists r e h, In r P /\ sat DB (body r) [] e /\ In h (heads r) /\ veval_head I e h = Some f.

(* the order on the tuples of relation r *)
Definition tle (r : rel) (t t' : vtuple V) : Prop :=
  if islat r then tkey t = tkey t' /\ length t = length t' /\ lle r (tval I t) (tval I t') else t = t'.

Definition below (DB : db) (f : vfact V) : Prop := exists t', DB (fst f) t' /\ tle (fst f) (snd f) t'.
(* Hoare order on sets of facts *)
Definition dble (A B : db) : Prop := forall r t, A r t -> below B (r, t).

Definition closedH (P : list rule) (J : db) : Prop := forall f, derives P J f -> below J f.
(* two facts with the same key have a common upper bound in the set (in particular: at most one fact per key) *)
Definition directed (J : db) : Prop :=
  forall r t1 t2, islat r = true -> J r t1 -> J r t2 -> tkey t1 = tkey t2 -> length t1 = length t2 ->
    exists t3, J r t3 /\ tle r t1 t3 /\ tle r t2 t3.

(* ---------- monotone programs ----------
   every rule variable x has an order G x on its values: equality for plain variables, (at least) the lattice
   order for the variable bound by the lattice column of a body clause, any order for variables computed from
   those.  Lattice variables may occur only as the (fresh) last argument of a lattice clause, in conditions /
   generators / let-expressions that respect the orders, and in the last column of a lattice head through an
   order-respecting expression. *)
Definition vorder := var -> V -> V -> Prop.
Definition ele (G : vorder) (e e' : venv V) : Prop :=
  forall x, match vlookup e x, vlookup e' x with
            | Some a, Some b => G x a b
            | None, None => True
            | _, _ => False
            end.
Definition plain_var (G : vorder) (x : var) : Prop := forall a b, G x a b <-> a = b.
Definition plain_term (G : vorder) (t : term) : Prop := forall x, In x (term_vars t) -> plain_var G x.
Definition mono_term (G : vorder) (ord : V -> V -> Prop) (t : term) : Prop :=
  forall e e' v, ele G e e' -> veval_term I e t = Some v -> exists v', veval_term I e' t = Some v' /\ ord v v'.
Definition mono_cond (G : vorder) (c : cond) : Prop :=
  forall e e' e1, ele G e e' -> vsat_cond I e c = Some e1 -> exists e1', vsat_cond I e' c = Some e1' /\ ele G e1 e1'.
Definition mono_gen (G : vorder) (x : var) (g : nat) (xs : list var) : Prop :=
  forall e e' vs v, ele G e e' -> veval_vars e xs = Some vs -> In v (vgen I g vs) ->
    exists vs' v', veval_vars e' xs = Some vs' /\ In v' (vgen I g vs') /\ G x v v'.
Definition mono_clause (G : vorder) (r : rel) (args : list term) : Prop :=
  if islat r then exists kargs x, args = kargs ++ [TVar x] /\ Forall (plain_term G) kargs /\ (forall a b, lle r a b -> G x a b)
  else Forall (plain_term G) args.
Definition mono_head (G : vorder) (h : rel * list term) : Prop :=
  if islat (fst h) then exists kargs t, snd h = kargs ++ [t] /\ Forall (plain_term G) kargs /\ mono_term G (lle (fst h)) t
  else Forall (plain_term G) (snd h).
Definition mono_item (G : vorder) (b : bitem) : Prop :=
  match b with
  | BClause r args cs => mono_clause G r args /\ Forall (mono_cond G) cs
  | BCond c => mono_cond G c
  | BGen x g xs => mono_gen G x g xs
  | BAgg _ _ _ _ _ => False
  end.
(* every G x is an order on a subset of the values: related values belong to the subset *)
Definition vorder_dom (G : vorder) : Prop := forall x a b, G x a b -> G x a a /\ G x b b.
Definition mono_rule (G : vorder) (ru : rule) : Prop :=
  vorder_dom G /\ Forall (mono_item G) (body ru) /\ Forall (mono_head G) (heads ru).
Definition monotone_program (P : list rule) : Prop := forall ru, In ru P -> exists G, mono_rule G ru.
End Sem.
