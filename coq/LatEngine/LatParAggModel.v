(* C02, lattice half WITH aggregation / negation - RELATIONAL model of one run of the PARALLEL lattice engine
   (ascent_par! / ascent_run_par! on a program mixing relations, lattices, `agg` clauses and `!` negation).
   Model only; the proofs are in LatParAggSim / LatParAggScc / LatParAggMain.v.

   This is LatParModel.v (same state, same step machine of the lattice head update, same global schedule, same
   causality / exhaustiveness conditions, same SCC loop and plan order - all REUSED, not copied) with the item
   `MirBodyItem::Agg` of ascent_codegen.rs compile_mir_rule_inner evaluated as the generated PARALLEL code does:

       let __aggregated_rel = <TOTAL version of the index of the aggregated relation on the key columns>;
       let __matching = __aggregated_rel.index_get(&(key exprs));
       // lattice relation, parallel mode, some bound column (fix 91f3357): the rows are COPIED first
       let __agg_rows = __matching.into_iter().flatten().map(|__val| _self.rel[*__val].read().unwrap().clone()).collect::<Vec<_>>();
       let __agg_args = __agg_rows.iter().map(|__row| (bound columns of __row));
       for <pat> in <aggregator>(__agg_args) { <rest of the body> }

   - the version is always Total (`MirRelation::from(agg.rel.clone(), Total)`), frozen during an iteration;
   - the index of a lattice relation is a set of ROW NUMBERS (CLatIndex, set-backed since d5edf35): each row number
     is listed once, in hash order - the model lets the aggregate traverse ANY permutation [ids] of the version;
   - every listed row is read ONCE, through its number, with one atomic read (`rows[i].read().clone()`): the value
     is whatever the row holds at that moment - [Obs r i t], the same observation relation as for body clauses
     ([seen]: a value the row has had so far during the iteration);  a plain relation's index stores the column
     values themselves (rows of a plain relation never change, so reading through the row number is the same);
   - the rows whose key columns carry the key are selected; the FULL index of a plain relation is a set of rows
     (duplicates collapse: [vdedup]), any other index has one entry per listed row ([agg_sel], as LatAggEval.agg_rows);
   - the aggregator receives the projections on the bound columns; the body continues once per value it returns;
     negation `!r(args)` is the aggregator `not` with pattern `()` (out = None).
   Abstractions (as LatParModel / LatAggEval): the index lookup is "the listed rows whose key columns carry the key", the
   key being read off the row (the key columns of a row never change; exact for plans passing alat_plan_ok: no index of a
   lattice relation on the lattice column); an aggregate WITHOUT bound columns (count(), negation) does not touch the rows
   in the real code - the model reads them all the same, which only matters if an index listed a row number that does not
   exist (then the model has no run; excluded between SCCs by stored_exact, LatParAggScc.par_run_scc_exact).
   An aggregate is one traversal: [agg_reads] fixes ONE order and ONE value per row for the whole call.
   Nothing here says that the aggregated relation is static or complete - that is a theorem about validated plans
   (LatParAggSim.v), not part of the model. *)
From Coq Require Import List ZArith Bool Arith Permutation.
From AV Require Import Engine.Core.
From AV Require Import Engine.Eval.
From AV Require Engine.ParLat.
From AV Require Import LatEngine.LatSyntax.
From AV Require Import LatEngine.LatEval.
From AV Require Import LatEngine.LatAggEval.
From AV Require Import LatEngine.LatParModel.
Import ListNotations.

Section LatParAgg.
Context {V : Type}.
Variable I : linterp V.
Variable vagg : nat -> list (list V) -> list V.     (* aggregators: bound-column tuples -> results *)
Variable islat : rel -> bool.
Variable jm : rel -> V -> V -> V * bool.

(* the entries of the index under [key] among the rows read (LatAggEval.agg_rows on rows already read) *)
Definition agg_sel (arity : nat) (lat : bool) (idx : list nat) (key : list V) (rows : list (vtuple V)) : list (vtuple V) :=
  let m := filter (fun row => vlist_eqb I (vproj I idx row) key) rows in
  if negb lat && Nat.eqb (length idx) arity then vdedup I m else m.

(* ---------- rule evaluation, relationally ---------- *)
Section Eval.
Variable dyn : list rel.
Variables St T D : rel -> list nat.
Variable Obs : rel -> nat -> vtuple V -> Prop.

(* one evaluation of an aggregate item under e yields the values [vals] *)
Definition agg_reads (e : venv V) (a : nat) (bound : list var) (r : rel) (args : list aarg) (idx : list nat) (vals : list V) : Prop :=
  exists key ids rows,
    vagg_key I e args idx = Some key
    /\ Permutation ids (vrows dyn St T D r VTotal)
    /\ Forall2 (Obs r) ids rows
    /\ vals = vagg a (map (vagg_input bound args) (agg_sel (length args) (islat r) idx key rows)).

Inductive asato : list pitem -> venv V -> venv V -> Prop :=
| asato_nil : forall e, asato [] e e
| asato_clause : forall r args cs idx ver rest e i t e1 e2 e3,
    In i (vrows dyn St T D r ver) -> Obs r i t ->
    vmatch_args I e args t = Some e1 -> vsat_conds I e1 cs = Some e2 -> asato rest e2 e3 ->
    asato (PClause r args cs idx ver :: rest) e e3
| asato_cond : forall c rest e e1 e2, vsat_cond I e c = Some e1 -> asato rest e1 e2 -> asato (PCond c :: rest) e e2
| asato_gen : forall x g xs rest e vs v e2,
    veval_vars e xs = Some vs -> In v (vgen I g vs) -> asato rest (vbind x v e) e2 -> asato (PGen x g xs :: rest) e e2
| asato_agg : forall out a bound r args idx rest e vals v e2,
    agg_reads e a bound r args idx vals -> In v vals -> asato rest (vbind_out out v e) e2 ->
    asato (PAgg out a bound r args idx :: rest) e e2.

Inductive acovers (Leaf : venv V -> Prop) : list pitem -> venv V -> Prop :=
| acov_nil : forall e, Leaf e -> acovers Leaf [] e
| acov_clause : forall r args cs idx ver rest e,
    (forall i, In i (vrows dyn St T D r ver) ->
       exists t, Obs r i t /\
         forall e1 e2, vmatch_args I e args t = Some e1 -> vsat_conds I e1 cs = Some e2 -> acovers Leaf rest e2) ->
    acovers Leaf (PClause r args cs idx ver :: rest) e
| acov_cond : forall c rest e, (forall e1, vsat_cond I e c = Some e1 -> acovers Leaf rest e1) -> acovers Leaf (PCond c :: rest) e
| acov_gen : forall x g xs rest e,
    (forall vs v, veval_vars e xs = Some vs -> In v (vgen I g vs) -> acovers Leaf rest (vbind x v e)) ->
    acovers Leaf (PGen x g xs :: rest) e
| acov_agg : forall out a bound r args idx rest e,
    (forall key, vagg_key I e args idx = Some key ->       (* the key expressions are bound: the aggregate is evaluated *)
       exists vals, agg_reads e a bound r args idx vals /\ forall v, In v vals -> acovers Leaf rest (vbind_out out v e)) ->
    acovers Leaf (PAgg out a bound r args idx :: rest) e.
End Eval.

(* ---------- one iteration of an SCC (LatParModel.par_lat_iteration with asato / acovers) ---------- *)
Section Iter.
Variable sc : pscc.
Variables St T D : rel -> list nat.
Variable R : rel -> list (vtuple V).

Section Run.
Variable mx : rel -> list V -> nat.
Variable kfirst : rel -> bool.
Variable work : rel -> list (list (list V * V)).
Variable Cp : rel -> list (vtuple V).

Local Notation g0 := (ginit I R work).
Local Notation run := (grun I jm T D R mx kfirst).
Local Notation seen := (seen I islat jm sc T D R mx kfirst work).

Definition aderived (Obs : rel -> nat -> vtuple V -> Prop) (f : vfact V) : Prop :=
  exists v items e h, In v (s_vars sc) /\ order_of v items /\
    asato (s_dyn sc) St T D Obs items [] e /\ In h (v_heads v) /\ veval_head I e h = Some f.

Definition acausal (sched : list (rel * nat)) : Prop :=
  (forall pre r j post kv, sched = pre ++ (r, j) :: post -> latdyn islat sc r = true ->
     pops (run g0 pre r) j = Some kv -> aderived (seen pre) (r, torow kv))
  /\ (forall r t, islat r = false -> In t (Cp r) -> aderived (seen sched) (r, t)).

Definition aexhaustive (sched : list (rel * nat)) : Prop :=
  forall v, In v (s_vars sc) -> skipped sc St T D v = false ->
    exists items, order_of v items /\
      acovers (s_dyn sc) St T D (seen sched)
              (fun e => forall h f, In h (v_heads v) -> veval_head I e h = Some f -> contributed I islat work Cp f) items [].
End Run.

Definition par_lat_agg_iteration (R' : rel -> list (vtuple V)) (N' : rel -> list nat) (ch' : bool) : Prop :=
  exists mx kfirst work Cp sched (A : rel -> list (vtuple V)),
    let g := grun I jm T D R mx kfirst (ginit I R work) sched in
    acausal mx kfirst work Cp sched /\ aexhaustive mx kfirst work Cp sched
    /\ (forall r, latdyn islat sc r = true ->
          ParLat.finished (g r) = true /\ R' r = map torow (ParLat.lrows (g r)) /\ N' r = ParLat.lother (g r))
    /\ (forall r, islat r = false -> is_dyn (s_dyn sc) r = true ->
          R' r = R r ++ A r /\ NoDup (A r)
          /\ (forall t, In t (A r) <-> In t (Cp r) /\ mem_row I (R r) t (T r) || mem_row I (R r) t (D r) = false)
          /\ N' r = seq (length (R r)) (length (A r)))
    /\ (forall r, is_dyn (s_dyn sc) r = false -> R' r = R r /\ N' r = [])
    /\ ch' = existsb (fun r => if islat r then ParLat.lchg (g r) else negb (is_nil (A r))) (s_dyn sc).
End Iter.

(* ---------- the SCC loop, the SCCs in plan order (as LatParModel) ---------- *)
Inductive par_lat_agg_loop (sc : pscc) (St : rel -> list nat) :
  (rel -> list nat) -> (rel -> list nat) -> (rel -> list (vtuple V)) -> (rel -> list nat) -> (rel -> list (vtuple V)) -> Prop :=
| pla_exit : forall T D R R' N',
    par_lat_agg_iteration sc St T D R R' N' false -> par_lat_agg_loop sc St T D R (merge T D) R'
| pla_step : forall T D R R' N' Tf Rf,
    par_lat_agg_iteration sc St T D R R' N' true -> par_lat_agg_loop sc St (merge T D) N' R' Tf Rf -> par_lat_agg_loop sc St T D R Tf Rf.

(* the iteration starts the loop can reach *)
Inductive par_lat_agg_loop_reach (sc : pscc) (St : rel -> list nat) :
  (rel -> list nat) -> (rel -> list nat) -> (rel -> list (vtuple V)) ->
  (rel -> list nat) -> (rel -> list nat) -> (rel -> list (vtuple V)) -> Prop :=
| para_here : forall T D R, par_lat_agg_loop_reach sc St T D R T D R
| para_next : forall T D R R' N' ch' T2 D2 R2,
    par_lat_agg_iteration sc St T D R R' N' ch' -> par_lat_agg_loop_reach sc St (merge T D) N' R' T2 D2 R2 ->
    par_lat_agg_loop_reach sc St T D R T2 D2 R2.

Definition par_lat_agg_run_scc (sc : pscc) (st st' : @lstate V) : Prop :=
  let dyn := s_dyn sc in
  let D0 := fun r => if is_dyn dyn r then l_stored st r else [] in
  let T0 := fun _ : rel => @nil nat in
  let back := fun (Tf : rel -> list nat) r => if is_dyn dyn r then Tf r else l_stored st r in
  if s_loop sc then
    exists Tf Rf, par_lat_agg_loop sc (l_stored st) T0 D0 (l_rows st) Tf Rf
                  /\ st' = {| l_rows := Rf; l_stored := back Tf; l_tick := l_tick st |}
  else
    exists R' N' b, par_lat_agg_iteration sc (l_stored st) T0 D0 (l_rows st) R' N' b
                    /\ st' = {| l_rows := R'; l_stored := back (merge (merge T0 D0) N'); l_tick := l_tick st |}.

Inductive par_lat_agg_run_sccs : plan -> @lstate V -> @lstate V -> Prop :=
| pra_nil : forall st, par_lat_agg_run_sccs [] st st
| pra_cons : forall sc pl st st1 st2,
    par_lat_agg_run_scc sc st st1 -> par_lat_agg_run_sccs pl st1 st2 -> par_lat_agg_run_sccs (sc :: pl) st st2.

Definition par_lat_agg_run_plan (pl : plan) (Rin : rel -> list (vtuple V)) (st : @lstate V) : Prop :=
  par_lat_agg_run_sccs pl (update_indices Rin) st.
End LatParAgg.
