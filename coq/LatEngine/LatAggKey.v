(* C04 over lattices - shared lemmas of the reduction: environments agreeing below N, the key of an aggregate,
   rebuilding the key from the values of the key variables, decoding positional generator symbols. *)
From Coq Require Import List ZArith Bool Arith Lia.
From AV Require Import Engine.Core.
From AV Require Import Engine.Eval.
From AV Require Import Engine.Validate.
From AV Require Import LatEngine.LatSyntax.
From AV Require Import LatEngine.LatEval.
From AV Require Import LatEngine.LatEnv.
From AV Require Import LatEngine.LatAggEval.
From AV Require Import LatEngine.LatAggTrans.
Import ListNotations.
Local Open Scope nat_scope.

Lemma decode_pos : forall j K p, p < K -> (j * K + p) / K = j /\ (j * K + p) mod K = p.
Proof.
  intros j K p H. split.
  - symmetry. apply (Nat.div_unique (j * K + p) K j p); lia.
  - symmetry. apply (Nat.mod_unique (j * K + p) K j p); lia.
Qed.

Section Key.
Context {V : Type}.
Variable I : linterp V.
Variable N : nat.
Notation agree := (agree (V:=V) N).

Lemma vars_below_In : forall xs x, vars_below N xs = true -> In x xs -> x < N.
Proof. intros xs x H Hx. unfold vars_below in H. rewrite forallb_forall in H. apply Nat.ltb_lt. apply H. exact Hx. Qed.

Lemma agree_refl : forall e, agree e e.
Proof. intros e x _. reflexivity. Qed.
Lemma agree_sym : forall e e', agree e e' -> agree e' e.
Proof. intros e e' H x Hx. symmetry. apply H. exact Hx. Qed.
Lemma agree_trans : forall a b c, agree a b -> agree b c -> agree a c.
Proof. intros a b c H1 H2 x Hx. rewrite (H1 x Hx). apply H2. exact Hx. Qed.

Lemma agree_bind : forall e e' x (v : V), agree e e' -> agree (vbind x v e) (vbind x v e').
Proof.
  intros e e' x v H y Hy. destruct (Nat.eq_dec x y) as [->|Hne].
  - rewrite !vlookup_bind_eq. reflexivity.
  - rewrite !vlookup_bind_neq by exact Hne. apply H. exact Hy.
Qed.
Lemma agree_bind_r : forall e e' x (v : V), N <= x -> agree e e' -> agree e (vbind x v e').
Proof. intros e e' x v Hx H y Hy. rewrite vlookup_bind_neq by lia. apply H. exact Hy. Qed.
Lemma agree_bind_l : forall e e' x (v : V), N <= x -> agree e e' -> agree (vbind x v e) e'.
Proof. intros e e' x v Hx H y Hy. rewrite vlookup_bind_neq by lia. apply H. exact Hy. Qed.

Lemma agree_vars : forall e e' xs, vars_below N xs = true -> agree e e' -> veval_vars e xs = veval_vars e' xs.
Proof.
  intros e e' xs Hb H. apply veval_vars_agree. intros x Hx. apply H. eapply vars_below_In; eauto.
Qed.
Lemma agree_term : forall e e' t, term_below N t = true -> agree e e' -> veval_term I e t = veval_term I e' t.
Proof.
  intros e e' t Hb H. apply veval_term_agree. intros x Hx. apply H. eapply vars_below_In; eauto.
Qed.
Lemma agree_terms : forall e e' ts, forallb (term_below N) ts = true -> agree e e' -> veval_terms I e ts = veval_terms I e' ts.
Proof.
  intros e e' ts. induction ts as [|t ts IH]; intros Hb H; cbn [veval_terms]; [reflexivity|].
  cbn [forallb] in Hb. apply andb_true_iff in Hb as [H1 H2]. rewrite (agree_term e e' t H1 H), (IH H2 H). reflexivity.
Qed.
Lemma agree_head : forall e e' (h : rel * list term), forallb (term_below N) (snd h) = true -> agree e e' -> veval_head I e h = veval_head I e' h.
Proof. intros e e' h Hb H. unfold veval_head. rewrite (agree_terms e e' _ Hb H). reflexivity. Qed.

Definition orel (a b : option (venv V)) : Prop :=
  match a, b with Some e1, Some e1' => agree e1 e1' | None, None => True | _, _ => False end.

Lemma agree_cond : forall e e' c, cond_below N c = true -> agree e e' -> orel (vsat_cond I e c) (vsat_cond I e' c).
Proof.
  intros e e' [p xs|x f xs] Hb H; cbn [cond_below] in Hb; cbn [vsat_cond].
  - rewrite <- (agree_vars e e' xs Hb H). destruct (veval_vars e xs) as [vs|]; cbn; auto. destruct (vpred I p vs); cbn; auto.
  - apply andb_true_iff in Hb as [_ Hb]. rewrite <- (agree_vars e e' xs Hb H). destruct (veval_vars e xs) as [vs|]; cbn; auto.
    destruct (vpart I f vs); cbn; auto. apply agree_bind. exact H.
Qed.
Lemma agree_conds : forall cs e e', forallb (cond_below N) cs = true -> agree e e' -> orel (vsat_conds I e cs) (vsat_conds I e' cs).
Proof.
  induction cs as [|c cs IH]; intros e e' Hb H; cbn [vsat_conds]; [exact H|].
  cbn [forallb] in Hb. apply andb_true_iff in Hb as [H1 H2]. pose proof (agree_cond e e' c H1 H) as Hc.
  destruct (vsat_cond I e c), (vsat_cond I e' c); cbn in Hc; try contradiction; cbn; auto.
Qed.

(* ---------- the key of an aggregate ---------- *)
Lemma keypos_cons : forall a args,
  keypos (a :: args) = match a with AKey _ => 0 :: map S (keypos args) | _ => map S (keypos args) end.
Proof.
  intros a args. unfold keypos. cbn [length seq combine filter snd]. rewrite <- seq_shift.
  assert (H : forall l (args : list aarg), map fst (filter (fun p : nat * aarg => match snd p with AKey _ => true | _ => false end) (combine (map S l) args))
            = map S (map fst (filter (fun p : nat * aarg => match snd p with AKey _ => true | _ => false end) (combine l args)))).
  { induction l as [|i l IH]; intros [|b bs]; cbn; auto. destruct b; cbn; rewrite IH; reflexivity. }
  destruct a; cbn [map fst]; rewrite H; reflexivity.
Qed.

Lemma vagg_key_shift : forall e a args idx, vagg_key I e (a :: args) (map S idx) = vagg_key I e args idx.
Proof. intros e a args idx. induction idx as [|i idx IH]; cbn [map vagg_key nth_error]; [reflexivity|]. rewrite IH. reflexivity. Qed.

Lemma vagg_key_keypos : forall e args, vagg_key I e args (keypos args) = veval_terms I e (akey_terms args).
Proof.
  intros e. induction args as [|a args IH]; [reflexivity|].
  rewrite keypos_cons. unfold akey_terms. cbn [flat_map]. fold (akey_terms args).
  destruct a as [|x|t]; cbn [app]; try (rewrite vagg_key_shift; exact IH).
  cbn [vagg_key nth_error veval_terms]. rewrite vagg_key_shift, IH. reflexivity.
Qed.

Lemma veval_vars_app : forall (e : venv V) xs ys,
  veval_vars e (xs ++ ys) = match veval_vars e xs, veval_vars e ys with Some a, Some b => Some (a ++ b) | _, _ => None end.
Proof.
  intros e xs ys. induction xs as [|x xs IH]; cbn [app veval_vars].
  - destruct (veval_vars e ys); reflexivity.
  - rewrite IH. destruct (vlookup e x); [|reflexivity]. destruct (veval_vars e xs); [|reflexivity]. destruct (veval_vars e ys); reflexivity.
Qed.

Lemma veval_term_some_vars : forall (e : venv V) t, (exists v, veval_term I e t = Some v) <-> (exists vs, veval_vars e (term_vars t) = Some vs).
Proof.
  intros e [x|c|f xs]; cbn [veval_term term_vars veval_vars].
  - destruct (vlookup e x); split; intros [w H]; try discriminate; eauto.
  - split; eauto.
  - destruct (veval_vars e xs); cbn; split; intros [w H]; try discriminate; eauto.
Qed.

Lemma veval_terms_some_vars : forall (e : venv V) ts,
  (exists vs, veval_terms I e ts = Some vs) <-> (exists ws, veval_vars e (flat_map term_vars ts) = Some ws).
Proof.
  intros e. induction ts as [|t ts IH]; cbn [veval_terms flat_map veval_vars]; [split; eauto|].
  rewrite veval_vars_app. split.
  - intros [vs H]. destruct (veval_term I e t) as [v|] eqn:Et; [|discriminate]. destruct (veval_terms I e ts) as [vs'|] eqn:Ets; [|discriminate].
    destruct (proj1 (veval_term_some_vars e t) (ex_intro _ v Et)) as [a Ha]. destruct (proj1 IH (ex_intro _ vs' eq_refl)) as [b Hb].
    rewrite Ha, Hb. eauto.
  - intros [ws H]. destruct (veval_vars e (term_vars t)) as [a|] eqn:Ea; [|discriminate].
    destruct (veval_vars e (flat_map term_vars ts)) as [b|] eqn:Eb; [|discriminate].
    destruct (proj2 (veval_term_some_vars e t) (ex_intro _ a Ea)) as [v Hv]. destruct (proj2 IH (ex_intro _ b eq_refl)) as [vs Hvs].
    rewrite Hv, Hvs. eauto.
Qed.

(* rebuilding the environment from the values of the key variables *)
Lemma vbinds_sub : forall xs vs (e e0 : venv V),
  veval_vars e xs = Some vs ->
  (forall y w, vlookup e0 y = Some w -> vlookup e y = Some w) ->
  (forall y w, vlookup (vbinds xs vs e0) y = Some w -> vlookup e y = Some w)
  /\ (forall y, In y xs -> vlookup (vbinds xs vs e0) y <> None)
  /\ (forall y w, vlookup e0 y = Some w -> vlookup (vbinds xs vs e0) y = Some w).
Proof.
  induction xs as [|x xs IH]; intros vs e e0 Hv Hsub.
  - cbn in Hv. injection Hv as <-. cbn [vbinds]. split; [exact Hsub|]. split; [intros y []|auto].
  - cbn [veval_vars] in Hv. destruct (vlookup e x) as [v|] eqn:Ex; [|discriminate]. destruct (veval_vars e xs) as [vs'|] eqn:Exs; [|discriminate].
    injection Hv as <-. cbn [vbinds].
    assert (Hsub' : forall y w, vlookup (vbind x v e0) y = Some w -> vlookup e y = Some w).
    { intros y w. destruct (Nat.eq_dec x y) as [->|Hne]; [rewrite vlookup_bind_eq; congruence | rewrite vlookup_bind_neq by exact Hne; apply Hsub]. }
    destruct (IH vs' e (vbind x v e0) Exs Hsub') as [H1 [H2 H3]]. split; [exact H1|]. split.
    + intros y [<-|Hy]; [|apply H2; exact Hy]. rewrite (H3 x v); [discriminate | apply vlookup_bind_eq].
    + intros y w Hy. apply H3. destruct (Nat.eq_dec x y) as [->|Hne]; [|rewrite vlookup_bind_neq by exact Hne; exact Hy].
      rewrite vlookup_bind_eq. specialize (Hsub _ _ Hy). congruence.
Qed.

Lemma vbinds_lookup : forall xs vs (e : venv V), veval_vars e xs = Some vs ->
  forall y, In y xs -> vlookup (vbinds xs vs []) y = vlookup e y.
Proof.
  intros xs vs e Hv y Hy.
  destruct (vbinds_sub xs vs e [] Hv) as [H1 [H2 _]]; [intros z w; rewrite vlookup_nil; discriminate|].
  specialize (H2 y Hy). destruct (vlookup (vbinds xs vs []) y) as [w|] eqn:E; [|congruence]. symmetry. apply H1. exact E.
Qed.

Lemma vbinds_terms : forall ts vs (e : venv V), veval_vars e (flat_map term_vars ts) = Some vs ->
  veval_terms I (vbinds (flat_map term_vars ts) vs []) ts = veval_terms I e ts.
Proof.
  intros ts vs e Hv.
  assert (H : forall ts', incl (flat_map term_vars ts') (flat_map term_vars ts) ->
            veval_terms I (vbinds (flat_map term_vars ts) vs []) ts' = veval_terms I e ts').
  { induction ts' as [|t ts' IH]; intros Hincl; cbn [veval_terms]; [reflexivity|].
    cbn [flat_map] in Hincl. rewrite IH by (intros y Hy; apply Hincl; apply in_or_app; right; exact Hy).
    rewrite (veval_term_agree I e (vbinds (flat_map term_vars ts) vs []) t); [reflexivity|].
    intros x Hx. apply (vbinds_lookup _ _ _ Hv). apply Hincl. apply in_or_app. left. exact Hx. }
  apply H. apply incl_refl.
Qed.
End Key.

Section Decode.
Context {V : Type}.
Variable I : linterp V.
Variable vagg : nat -> list (list V) -> list V.
Variable islat : rel -> bool.
Variable P : list rule.
Variable K : nat.

Lemma tr_vgen_gen : forall A j p ru x g xs vs,
  nth_error P j = Some ru -> nth_error (body ru) p = Some (BGen x g xs) -> p < K ->
  tr_vgen I vagg islat P K A (j * K + p) vs = vgen I g vs.
Proof.
  intros A j p ru x g xs vs Hj Hp Hlt. unfold tr_vgen. destruct (decode_pos j K p Hlt) as [-> ->]. rewrite Hj, Hp. reflexivity.
Qed.

Lemma tr_vgen_agg : forall A j p ru out a bound r args vs,
  nth_error P j = Some ru -> nth_error (body ru) p = Some (BAgg out a bound r args) -> p < K ->
  tr_vgen I vagg islat P K A (j * K + p) vs
  = match agg_result I vagg islat A (vbinds (akey_vars args) vs []) a bound r args with Some l => l | None => [] end.
Proof.
  intros A j p ru out a bound r args vs Hj Hp Hlt. unfold tr_vgen. destruct (decode_pos j K p Hlt) as [-> ->]. rewrite Hj, Hp. reflexivity.
Qed.

Lemma body_bound_lt : forall j ru, body_bound K P = true -> nth_error P j = Some ru -> length (body ru) < K.
Proof.
  intros j ru H Hj. unfold body_bound in H. rewrite forallb_forall in H. apply Nat.ltb_lt. apply H. eapply nth_error_In; eauto.
Qed.
End Decode.
