(* C02, lattice half WITH aggregation - the model with aggregates is a CONSERVATIVE extension of LatParModel.v: on an SCC
   without aggregate items the iterations, loops and runs of LatParAggModel are exactly those of LatParModel (whose
   [covers] leaves aggregate items unconstrained and whose [sato] has no case for them). *)
From Coq Require Import List ZArith Bool Arith Lia Permutation.
From AV Require Import Engine.Core.
From AV Require Import Engine.Eval.
From AV Require Engine.ParLat.
From AV Require Import LatEngine.LatSyntax.
From AV Require Import LatEngine.LatEval.
From AV Require Import LatEngine.LatAggEval.
From AV Require Import LatEngine.LatParModel.
From AV Require Import LatEngine.LatParAggModel.
From AV Require Import LatEngine.LatParAggSim.
Import ListNotations.
Local Open Scope nat_scope.

Definition pitem_noagg (it : pitem) : bool := match it with PAgg _ _ _ _ _ _ => false | _ => true end.
Definition scc_noagg (sc : pscc) : bool := forallb (fun v => forallb pitem_noagg (v_items v)) (s_vars sc).

Section Embed.
Context {V : Type}.
Variable I : linterp V.
Variable vagg : nat -> list (list V) -> list V.
Variable islat : rel -> bool.
Variable jm : rel -> V -> V -> V * bool.

Section Eval.
Variable dyn : list rel.
Variables St T D : rel -> list nat.
Variable Obs : rel -> nat -> vtuple V -> Prop.

Lemma sato_asato : forall items e e', sato I dyn St T D Obs items e e' -> asato I vagg islat dyn St T D Obs items e e'.
Proof.
  intros items e e' H. induction H.
  - constructor.
  - eapply asato_clause; eauto.
  - eapply asato_cond; eauto.
  - eapply asato_gen; eauto.
Qed.

Lemma asato_sato_noagg : forall items e e', asato I vagg islat dyn St T D Obs items e e' ->
  Forall (fun it => pitem_noagg it = true) items -> sato I dyn St T D Obs items e e'.
Proof.
  intros items e e' H. induction H; intros Hn.
  - constructor.
  - inversion Hn; subst. eapply sato_clause; eauto.
  - inversion Hn; subst. eapply sato_cond; eauto.
  - inversion Hn; subst. eapply sato_gen; eauto.
  - inversion Hn as [|? ? Hx _]; subst. discriminate Hx.
Qed.

Lemma acovers_covers_any : forall Leaf items e, acovers I vagg islat dyn St T D Obs Leaf items e -> covers I dyn St T D Obs Leaf items e.
Proof.
  intros Leaf. induction items as [|it rest IH]; intros e H.
  - inversion H; subst. apply cov_nil. assumption.
  - destruct it as [r args cs idx ver|c|x g xs|out a bound r args idx].
    + inversion H as [|r0 args0 cs0 idx0 ver0 rest0 ea Hall| | |]; subst.
      apply cov_clause. intros i Hi. destruct (Hall i Hi) as [t [Ho Hk]]. exists t. split; [exact Ho|].
      intros e1 e2 H1 H2. apply IH. exact (Hk e1 e2 H1 H2).
    + inversion H as [| |c0 rest0 ea Hall| |]; subst. apply cov_cond. intros e1 H1. apply IH. exact (Hall e1 H1).
    + inversion H as [| | |x0 g0 xs0 rest0 ea Hall|]; subst. apply cov_gen. intros vs v H1 H2. apply IH. exact (Hall vs v H1 H2).
    + apply cov_agg.
Qed.

Lemma covers_acovers_noagg : forall Leaf items e, covers I dyn St T D Obs Leaf items e ->
  Forall (fun it => pitem_noagg it = true) items -> acovers I vagg islat dyn St T D Obs Leaf items e.
Proof.
  intros Leaf. induction items as [|it rest IH]; intros e H Hn.
  - inversion H; subst. apply acov_nil. assumption.
  - inversion Hn as [|? ? Hx Hn']; subst. destruct it as [r args cs idx ver|c|x g xs|out a bound r args idx].
    + inversion H as [|r0 args0 cs0 idx0 ver0 rest0 ea Hall| | |]; subst.
      apply acov_clause. intros i Hi. destruct (Hall i Hi) as [t [Ho Hk]]. exists t. split; [exact Ho|].
      intros e1 e2 H1 H2. apply IH; [exact (Hk e1 e2 H1 H2) | exact Hn'].
    + inversion H as [| |c0 rest0 ea Hall| |]; subst. apply acov_cond. intros e1 H1. apply IH; [exact (Hall e1 H1) | exact Hn'].
    + inversion H as [| | |x0 g0 xs0 rest0 ea Hall|]; subst. apply acov_gen. intros vs v H1 H2. apply IH; [exact (Hall vs v H1 H2) | exact Hn'].
    + discriminate Hx.
Qed.
End Eval.

Variable sc : pscc.
Hypothesis Hna : scc_noagg sc = true.

Lemma order_noagg : forall v items, In v (s_vars sc) -> order_of v items -> Forall (fun it => pitem_noagg it = true) items.
Proof.
  intros v items Hv Ho. unfold scc_noagg in Hna. rewrite forallb_forall in Hna. specialize (Hna v Hv).
  assert (H0 : Forall (fun it => pitem_noagg it = true) (v_items v)) by (apply Forall_forall; rewrite forallb_forall in Hna; exact Hna).
  destruct Ho as [->|[_ [n [_ ->]]]]; [exact H0 | apply swap_at_Forall; exact H0].
Qed.

Lemma derived_iff : forall St T D Obs f, aderived I vagg islat sc St T D Obs f <-> derived I sc St T D Obs f.
Proof.
  intros St T D Obs f. split; intros [v [items [e [h [Hv [Ho [Hs [Hh Hf]]]]]]]]; exists v, items, e, h; repeat split; auto.
  - apply asato_sato_noagg; [exact Hs | exact (order_noagg v items Hv Ho)].
  - apply sato_asato. exact Hs.
Qed.

Theorem par_agg_iteration_noagg : forall St T D R R' N' ch',
  par_lat_agg_iteration I vagg islat jm sc St T D R R' N' ch' <-> par_lat_iteration I islat jm sc St T D R R' N' ch'.
Proof.
  intros St T D R R' N' ch'. split; intros [mx [kfirst [work [Cp [sched [A [[Hc1 Hc2] [Hex Hrest]]]]]]]];
    exists mx, kfirst, work, Cp, sched, A; cbv zeta; (split; [|split; [|exact Hrest]]).
  - split.
    + intros pre r j post kv Hs Hr Hp. apply derived_iff. exact (Hc1 pre r j post kv Hs Hr Hp).
    + intros r t Hl Hin. apply derived_iff. exact (Hc2 r t Hl Hin).
  - intros v Hv Hsk. destruct (Hex v Hv Hsk) as [items [Ho Hc]]. exists items. split; [exact Ho|]. apply acovers_covers_any. exact Hc.
  - split.
    + intros pre r j post kv Hs Hr Hp. apply derived_iff. exact (Hc1 pre r j post kv Hs Hr Hp).
    + intros r t Hl Hin. apply derived_iff. exact (Hc2 r t Hl Hin).
  - intros v Hv Hsk. destruct (Hex v Hv Hsk) as [items [Ho Hc]]. exists items. split; [exact Ho|].
    apply covers_acovers_noagg; [exact Hc | exact (order_noagg v items Hv Ho)].
Qed.

Lemma par_agg_loop_noagg : forall St T D R Tf Rf,
  par_lat_agg_loop I vagg islat jm sc St T D R Tf Rf <-> par_lat_loop I islat jm sc St T D R Tf Rf.
Proof.
  intros St T D R Tf Rf. split; intros H.
  - induction H as [T D R R' N' Hit | T D R R' N' Tf Rf Hit Hloop IH].
    + eapply pll_exit. apply par_agg_iteration_noagg. exact Hit.
    + eapply pll_step; [apply par_agg_iteration_noagg; exact Hit | exact IH].
  - induction H as [T D R R' N' Hit | T D R R' N' Tf Rf Hit Hloop IH].
    + eapply pla_exit. apply par_agg_iteration_noagg. exact Hit.
    + eapply pla_step; [apply par_agg_iteration_noagg; exact Hit | exact IH].
Qed.

Theorem par_agg_run_scc_noagg : forall st st' : @lstate V,
  par_lat_agg_run_scc I vagg islat jm sc st st' <-> par_lat_run_scc I islat jm sc st st'.
Proof.
  intros st st'. unfold par_lat_agg_run_scc, par_lat_run_scc. cbv zeta. destruct (s_loop sc).
  - split; intros [Tf [Rf [H E]]]; exists Tf, Rf; (split; [apply par_agg_loop_noagg; exact H | exact E]).
  - split; intros [R' [N' [b [H E]]]]; exists R', N', b; (split; [apply par_agg_iteration_noagg; exact H | exact E]).
Qed.
End Embed.

Print Assumptions par_agg_run_scc_noagg.
