(* C04 over lattices - SPECIFICATION: the stratified lattice model.

   A stratum s (the rules of one SCC of the plan) is evaluated over the rows R0 left by the earlier strata:
   - an aggregate / negation `agg out = a(bound) in r(args)` ranges over the rows of R0 r whose key columns
     carry the values of the key expressions - each row once: one row per key for a lattice relation, the
     distinct rows of a plain relation - ([asat_agg]; R0 r is complete and final: nothing in this or a later
     stratum writes r);
   - the result R1 is the least fixed point in the sense of C03 (LatSem.v): a per-key directed set, closed
     under the rules of s (every derived fact is below it), above R0, and below every such set J.
   [strat_lat_model] chains the strata. *)
From Coq Require Import List ZArith Bool Arith.
From AV Require Import Engine.Core.
From AV Require Import Engine.Validate.
From AV Require Import Engine.Strat.
From AV Require Import Engine.StratFixed.
From AV Require Import LatEngine.LatSyntax.
From AV Require Import LatEngine.LatEval.
From AV Require Import LatEngine.LatSem.
From AV Require Import LatEngine.LatKeys.
From AV Require Import LatEngine.LatAggEval.
From AV Require Import LatEngine.LatAggTrans.
From AV Require Import LatEngine.LatAggInv.
Import ListNotations.
Local Open Scope nat_scope.

Section ASem.
Context {V : Type}.
Variable I : linterp V.
Variable vagg : nat -> list (list V) -> list V.
Variable islat : rel -> bool.
Variable lle : rel -> V -> V -> Prop.

(* satisfaction of a rule body with aggregates over the fixed rows A *)
Inductive asat (A : rel -> list (vtuple V)) (DB : db) : list bitem -> venv V -> venv V -> Prop :=
| asat_nil : forall e, asat A DB [] e e
| asat_clause : forall r args cs rest e t e1 e2 e3,
    DB r t -> vmatch_args I e args t = Some e1 -> vsat_conds I e1 cs = Some e2 -> asat A DB rest e2 e3 ->
    asat A DB (BClause r args cs :: rest) e e3
| asat_cond : forall c rest e e1 e2,
    vsat_cond I e c = Some e1 -> asat A DB rest e1 e2 -> asat A DB (BCond c :: rest) e e2
| asat_gen : forall x g xs rest e vs v e2,
    veval_vars e xs = Some vs -> In v (vgen I g vs) -> asat A DB rest (vbind x v e) e2 ->
    asat A DB (BGen x g xs :: rest) e e2
| asat_agg : forall out a bound r args rest e key v e2,
    veval_terms I e (akey_terms args) = Some key ->
    In v (vagg a (map (vagg_input bound args) (spec_rows I islat A r args key))) ->
    asat A DB rest (vbind_out out v e) e2 ->
    asat A DB (BAgg out a bound r args :: rest) e e2.

Definition aderives (A : rel -> list (vtuple V)) (s : list rule) (DB : db) (f : vfact V) : Prop :=
  exists r e h, In r s /\ asat A DB (body r) [] e /\ In h (heads r) /\ veval_head I e h = Some f.

Definition aclosedH (A : rel -> list (vtuple V)) (s : list rule) (J : db) : Prop :=
  forall f, aderives A s J f -> below I islat lle J f.

(* monotone programs (LatSem.mono_item) with aggregates: the key expressions and the output variable are plain *)
Definition amono_item (G : vorder) (b : bitem) : Prop :=
  match b with
  | BClause r args cs => mono_clause islat lle G r args /\ Forall (mono_cond I G) cs
  | BCond c => mono_cond I G c
  | BGen x g xs => mono_gen I G x g xs
  | BAgg out _ _ _ args => Forall (plain_term G) (akey_terms args) /\ (forall x, out = Some x -> plain_var G x)
  end.
Definition amono_rule (G : vorder) (ru : rule) : Prop :=
  vorder_dom G /\ Forall (amono_item G) (body ru) /\ Forall (mono_head I islat lle G) (heads ru).
(* N: a bound on the variables of the program; the order of an unused variable is reflexive *)
Definition amonotone_program (N : nat) (P : list rule) : Prop :=
  forall ru, In ru P -> exists G, amono_rule G ru /\ (forall x a, N <= x -> G x a a).

(* the least fixed point of one stratum over the rows R0 of the completed lower strata *)
Definition stratum_lfp (s : list rule) (R0 R1 : rel -> list (vtuple V)) : Prop :=
  (forall q, In q (stratum_agg_rels s) -> R1 q = R0 q)
  /\ keys_ok islat R1 /\ plain_nodup islat R1
  /\ directed I islat lle (dbof R1)
  /\ aclosedH R0 s (dbof R1)
  /\ dble I islat lle (dbof R0) (dbof R1)
  /\ forall J : db, directed I islat lle J -> aclosedH R0 s J -> dble I islat lle (dbof R0) J -> dble I islat lle (dbof R1) J.

Fixpoint strat_lat_model (strata : list (list rule)) (R0 R : rel -> list (vtuple V)) : Prop :=
  match strata with
  | [] => forall r, R r = R0 r
  | s :: rest => exists R1, stratum_lfp s R0 R1 /\ strat_lat_model rest R1 R
  end.
End ASem.
