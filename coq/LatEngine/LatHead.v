(* C03 - the invariant of one evaluation of the rules of an SCC, and the head update:
   it keeps one row per key, records every changed / new row in `new`, only raises values, leaves the
   inserted fact below the state, and keeps the state below every directed set that is above the fact. *)
From Coq Require Import List ZArith Bool Arith Lia.
From AV Require Import Engine.Core.
From AV Require Import Engine.Eval.
From AV Require Import Engine.Validate.
From AV Require Import Engine.Naive.
From AV Require Import LatEngine.LatSyntax.
From AV Require Import LatEngine.LatEval.
From AV Require Import LatEngine.LatSem.
From AV Require Import LatEngine.LatClause.
From AV Require Import LatEngine.LatMono.
From AV Require Import LatEngine.LatBase.
Import ListNotations.
Local Open Scope nat_scope.

Section Head.
Context {V : Type}.
Variable I : linterp V.
Hypothesis Heq : veqb_ok I.
Variable islat : rel -> bool.
Variable lle : rel -> V -> V -> Prop.
Variable jm : rel -> V -> V -> V * bool.
Hypothesis Hlaws : forall r, islat r = true -> lat_laws (lle r) (jm r).
Variable arities : list (rel * nat).
Hypothesis Hfun : arities_functional arities.
Hypothesis Hlat1 : forall r n, islat r = true -> arity_ok arities r n = true -> 0 < n.
Variable dyn : list rel.
Variables T D : rel -> list nat.
Variable R0 : rel -> list (vtuple V).         (* the rows when the evaluation of the rules started *)
Hypothesis HTD : forall r i, In i (T r) \/ In i (D r) -> i < length (R0 r).
Hypothesis Hcov0 : forall r i, is_dyn dyn r = true -> i < length (R0 r) -> In i (T r) \/ In i (D r).

Notation tle := (tle I islat lle).
Notation below := (below I islat lle).
Notation rle := (rle I islat lle).
Notation hu := (head_update I islat jm T D).

Record sinv (s : @istate V) : Prop := {
  si_ar : forall r row, In row (i_rows s r) -> forall n, arity_ok arities r n = true -> length row = n;
  si_new : forall r i, In i (i_new s r) -> i < length (i_rows s r);
  si_cov : forall r i, is_dyn dyn r = true -> i < length (i_rows s r) -> i < length (R0 r) \/ In i (i_new s r);
  si_key : forall r, islat r = true -> NoDup (map tkey (i_rows s r));
  si_chg : forall r i row, nth_error (R0 r) i = Some row -> nth_error (i_rows s r) i = Some row \/ In i (i_new s r);
  si_sta : forall r, is_dyn dyn r = false -> i_rows s r = R0 r /\ i_new s r = [];
  si_flag : i_changed s = false -> forall r, i_new s r = [];
  si_wf : rows_wf I islat lle (i_rows s);
  si_rle : rle R0 (i_rows s)
}.

Definition allbelow (J : db) (R : rel -> list (vtuple V)) : Prop := forall r row, In row (R r) -> below J (r, row).

(* what a fact must satisfy to be inserted *)
Definition fact_ok (f : vfact V) : Prop :=
  is_dyn dyn (fst f) = true /\ arity_ok arities (fst f) (length (snd f)) = true
  /\ (islat (fst f) = true -> lle (fst f) (tval I (snd f)) (tval I (snd f))).

Lemma NoDup_app_intro_single : forall (A : Type) (l : list A) a, NoDup l -> ~ In a l -> NoDup (l ++ [a]).
Proof.
  intros A l a Hn Hi. induction l as [|x l IH]; cbn.
  - constructor; auto.
  - inversion Hn; subst. constructor.
    + intros H. apply in_app_or in H. destruct H as [H|[H|[]]]; auto. subst. apply Hi. left. reflexivity.
    + apply IH; auto. intros H. apply Hi. right. exact H.
Qed.

Lemma row_has_key_spec : forall R key i, row_has_key I R key i = true <-> exists row, nth_error R i = Some row /\ tkey row = key.
Proof.
  intros R key i. unfold row_has_key. destruct (nth_error R i) as [row|].
  - rewrite (vlist_eqb_eq I Heq). split; [intros H; eauto | intros [row' [E H]]; congruence].
  - split; [discriminate | intros [row' [E _]]; discriminate].
Qed.

Lemma row_is_spec : forall R t i, row_is I R t i = true <-> nth_error R i = Some t.
Proof.
  intros R t i. unfold row_is. destruct (nth_error R i) as [row|].
  - rewrite (vlist_eqb_eq I Heq). split; congruence.
  - split; discriminate.
Qed.

Lemma mem_row_spec : forall R t l, mem_row I R t l = true <-> exists i, In i l /\ nth_error R i = Some t.
Proof.
  intros R t l. unfold mem_row. rewrite existsb_exists. split; intros [i [H1 H2]]; exists i; split; auto; apply row_is_spec; auto.
Qed.

Lemma find_key_some : forall R key l i, find_key I R key l = Some i -> In i l /\ exists row, nth_error R i = Some row /\ tkey row = key.
Proof. intros R key l i H. unfold find_key in H. apply find_some in H. destruct H as [H1 H2]. split; auto. apply row_has_key_spec; auto. Qed.

Lemma find_key_none : forall R key l, find_key I R key l = None -> forall i row, In i l -> nth_error R i = Some row -> tkey row <> key.
Proof.
  intros R key l H i row Hi Hr Hk. unfold find_key in H. pose proof (find_none _ _ H i Hi) as Hf.
  assert (row_has_key I R key i = true) by (apply row_has_key_spec; eauto). congruence.
Qed.

Lemma orelse_some : forall (A : Type) (a b : option A) x, orelse a b = Some x -> a = Some x \/ (a = None /\ b = Some x).
Proof. intros A a b x H. destruct a; cbn in H; auto. Qed.
Lemma orelse_none : forall (A : Type) (a b : option A), orelse a b = None -> a = None /\ b = None.
Proof. intros A a b H. destruct a; cbn in H; auto. discriminate. Qed.

Lemma tkey_row_upd : forall (row : vtuple V) v, tkey (tkey row ++ [v]) = tkey row.
Proof. intros. apply tkey_app. Qed.

Lemma row_rebuild : forall (row : vtuple V), 0 < length row -> tkey row ++ [tval I row] = row.
Proof.
  intros row H. destruct (length row) as [|n] eqn:E; [lia|]. destruct (split_last I row n E) as [H1 _]. symmetry. exact H1.
Qed.

Lemma len_row_upd : forall (row : vtuple V) v, 0 < length row -> length (tkey row ++ [v]) = length row.
Proof.
  intros row v H. destruct (length row) as [|n] eqn:E; [lia|]. destruct (split_last I row n E) as [_ H2].
  rewrite app_length, H2. cbn. lia.
Qed.

(* ---------- pushing a new row ---------- *)
Lemma push_ok : forall s r t,
  sinv s -> fact_ok (r, t) ->
  (islat r = true -> forall row, In row (i_rows s r) -> tkey row <> tkey t) ->
  sinv (push_row s r t) /\ rle (i_rows s) (i_rows (push_row s r t)) /\ below (dbof (i_rows (push_row s r t))) (r, t).
Proof.
  intros s r t Hs [Hd [Har Hwf]] Hkey. cbn [fst snd] in *.
  assert (Hrle : rle (i_rows s) (i_rows (push_row s r t))).
  { intros q i row Hi. cbn [push_row i_rows]. exists row. split.
    - destruct (Nat.eq_dec q r) as [->|Hne]; [rewrite upd_same | rewrite upd_other by auto; auto].
      rewrite nth_error_app1; auto. eapply nth_error_In_lt; eauto.
    - apply (tle_refl I islat lle). intros E. apply (si_wf s Hs q row E). eapply nth_error_In; eauto. }
  split; [|split; [exact Hrle|]].
  - constructor; cbn [push_row i_rows i_new i_changed].
    + intros q row Hin n Hn. destruct (Nat.eq_dec q r) as [->|Hne]; [rewrite upd_same in Hin | rewrite upd_other in Hin by auto].
      * apply in_app_or in Hin. destruct Hin as [Hin|[<-|[]]]; [eapply (si_ar s Hs); eauto|].
        eapply arity_ok_fun; eauto.
      * eapply (si_ar s Hs); eauto.
    + intros q i Hi. destruct (Nat.eq_dec q r) as [->|Hne].
      * rewrite upd_same in *. rewrite app_length. cbn. apply nadd_In in Hi. destruct Hi as [->|Hi]; [lia|].
        pose proof (si_new s Hs r i Hi). lia.
      * rewrite upd_other in * by auto. apply (si_new s Hs); auto.
    + intros q i Hq Hi. destruct (Nat.eq_dec q r) as [->|Hne].
      * rewrite upd_same in *. rewrite app_length in Hi. cbn in Hi. rewrite nadd_In.
        destruct (Nat.eq_dec i (length (i_rows s r))) as [->|Hn]; [right; left; reflexivity|].
        destruct (si_cov s Hs r i Hq) as [H|H]; [lia| |]; auto.
      * rewrite upd_other in * by auto. apply (si_cov s Hs); auto.
    + intros q Hq. destruct (Nat.eq_dec q r) as [->|Hne].
      * rewrite upd_same. rewrite map_app. cbn. apply NoDup_app_intro_single; [apply (si_key s Hs); auto|].
        intros Hin. apply in_map_iff in Hin. destruct Hin as [row [Hk Hin]]. exact (Hkey Hq row Hin Hk).
      * rewrite upd_other by auto. apply (si_key s Hs); auto.
    + intros q i row Hi. destruct (si_chg s Hs q i row Hi) as [H|H].
      * left. destruct (Nat.eq_dec q r) as [->|Hne]; [rewrite upd_same | rewrite upd_other by auto; auto].
        rewrite nth_error_app1; auto. eapply nth_error_In_lt; eauto.
      * right. destruct (Nat.eq_dec q r) as [->|Hne]; [rewrite upd_same; apply nadd_In; auto | rewrite upd_other by auto; auto].
    + intros q Hq. assert (q <> r) by (intros ->; congruence). rewrite !upd_other by auto. apply (si_sta s Hs); auto.
    + discriminate.
    + intros q row Hq Hin. destruct (Nat.eq_dec q r) as [->|Hne]; [rewrite upd_same in Hin | rewrite upd_other in Hin by auto].
      * apply in_app_or in Hin. destruct Hin as [Hin|[<-|[]]]; [eapply (si_wf s Hs); eauto | auto].
      * eapply (si_wf s Hs); eauto.
    + eapply (rle_trans I islat lle jm Hlaws); [apply (si_rle s Hs) | exact Hrle].
  - exists t. cbn [fst snd]. split.
    + unfold dbof. cbn [push_row i_rows]. rewrite upd_same. apply in_or_app. right. left. reflexivity.
    + apply (tle_refl I islat lle). exact Hwf.
Qed.

(* ---------- raising the value of an existing row ---------- *)
Lemma raise_ok : forall s r i row v' Nf ch',
  sinv s -> islat r = true -> is_dyn dyn r = true ->
  nth_error (i_rows s r) i = Some row -> 0 < length row -> lle r (tval I row) v' ->
  (forall q, q <> r -> Nf q = i_new s q) ->
  ((Nf r = nadd i (i_new s r) /\ ch' = true) \/ (Nf r = i_new s r /\ ch' = i_changed s /\ v' = tval I row)) ->
  let s' := {| i_rows := upd (i_rows s) r (set_nth i (tkey row ++ [v']) (i_rows s r)); i_new := Nf; i_changed := ch'; i_tick := i_tick s |} in
  sinv s' /\ rle (i_rows s) (i_rows s').
Proof.
  intros s r i row v' Nf ch' Hs Hl Hd Hi Hlen Hle HN Hcase s'.
  pose proof (Hlaws r Hl) as L.
  assert (Hv' : lle r v' v') by (apply (ll_dom _ _ L) in Hle; tauto).
  assert (Hil : i < length (i_rows s r)) by (eapply nth_error_In_lt; eauto).
  assert (Hrle : rle (i_rows s) (i_rows s')).
  { intros q j rw Hj. cbn [s' i_rows]. destruct (Nat.eq_dec q r) as [->|Hne]; [rewrite upd_same | rewrite upd_other by auto].
    - destruct (Nat.eq_dec i j) as [->|Hij].
      + rewrite nth_error_set_nth_eq by auto. eexists. split; [reflexivity|].
        assert (rw = row) by congruence. subst rw. unfold LatSem.tle. rewrite Hl.
        rewrite tkey_app, tval_app. split; [reflexivity|]. split; [symmetry; apply len_row_upd; auto | exact Hle].
      + rewrite nth_error_set_nth_neq by auto. exists rw. split; auto.
        apply (tle_refl I islat lle). intros E. apply (si_wf s Hs r rw E). eapply nth_error_In; eauto.
    - exists rw. split; auto. apply (tle_refl I islat lle). intros E. apply (si_wf s Hs q rw E). eapply nth_error_In; eauto. }
  assert (HNr : forall j, In j (i_new s r) -> In j (Nf r)).
  { intros j Hj. destruct Hcase as [[E _]|[E _]]; rewrite E; auto. apply nadd_In. auto. }
  split; [|exact Hrle].
  constructor; cbn [s' i_rows i_new i_changed].
  - intros q rw Hin n Hn. destruct (Nat.eq_dec q r) as [->|Hne]; [rewrite upd_same in Hin | rewrite upd_other in Hin by auto].
    + apply In_set_nth in Hin. destruct Hin as [->|Hin]; [|eapply (si_ar s Hs); eauto].
      rewrite len_row_upd by auto. eapply (si_ar s Hs); eauto. eapply nth_error_In; eauto.
    + eapply (si_ar s Hs); eauto.
  - intros q j Hj. destruct (Nat.eq_dec q r) as [->|Hne].
    + rewrite upd_same, set_nth_length. destruct Hcase as [[E _]|[E _]]; rewrite E in Hj.
      * apply nadd_In in Hj. destruct Hj as [->|Hj]; auto. apply (si_new s Hs); auto.
      * apply (si_new s Hs); auto.
    + rewrite upd_other by auto. rewrite HN in Hj by auto. apply (si_new s Hs); auto.
  - intros q j Hq Hj. destruct (Nat.eq_dec q r) as [->|Hne].
    + rewrite upd_same, set_nth_length in Hj. destruct (si_cov s Hs r j Hq Hj) as [H|H]; auto.
    + rewrite upd_other in Hj by auto. rewrite HN by auto. apply (si_cov s Hs); auto.
  - intros q Hq. destruct (Nat.eq_dec q r) as [->|Hne].
    + rewrite upd_same, map_set_nth, tkey_app. rewrite set_nth_same; [apply (si_key s Hs); auto|].
      apply map_nth_error. exact Hi.
    + rewrite upd_other by auto. apply (si_key s Hs); auto.
  - intros q j rw Hj. destruct (Nat.eq_dec q r) as [->|Hne].
    + rewrite upd_same. destruct (si_chg s Hs r j rw Hj) as [H|H]; [|right; auto].
      destruct (Nat.eq_dec i j) as [->|Hij].
      * destruct Hcase as [[E _]|[E [_ Ev]]].
        -- right. rewrite E. apply nadd_In. auto.
        -- left. rewrite nth_error_set_nth_eq by auto. assert (rw = row) by congruence. subst rw v'.
           rewrite row_rebuild by auto. reflexivity.
      * left. rewrite nth_error_set_nth_neq by auto. exact H.
    + rewrite upd_other by auto. rewrite HN by auto. apply (si_chg s Hs); auto.
  - intros q Hq. assert (q <> r) by (intros ->; congruence). rewrite upd_other by auto. rewrite HN by auto. apply (si_sta s Hs); auto.
  - intros Hc q. destruct Hcase as [[_ E]|[E [E2 _]]]; [congruence|]. rewrite E2 in Hc.
    destruct (Nat.eq_dec q r) as [->|Hne]; [rewrite E | rewrite HN by auto]; apply (si_flag s Hs); auto.
  - intros q rw Hq Hin. destruct (Nat.eq_dec q r) as [->|Hne]; [rewrite upd_same in Hin | rewrite upd_other in Hin by auto].
    + apply In_set_nth in Hin. destruct Hin as [->|Hin]; [rewrite tval_app; exact Hv' | eapply (si_wf s Hs); eauto].
    + eapply (si_wf s Hs); eauto.
  - eapply (rle_trans I islat lle jm Hlaws); [apply (si_rle s Hs) | exact Hrle].
Qed.

(* ---------- the head update ---------- *)
Lemma tle_plain_refl : forall r (t : vtuple V), islat r = false -> tle r t t.
Proof. intros r t E. unfold LatSem.tle. rewrite E. reflexivity. Qed.

Lemma sinv_rle_refl : forall s, sinv s -> rle (i_rows s) (i_rows s).
Proof. intros s Hs. apply (rle_refl I islat lle). apply (si_wf s Hs). Qed.

Lemma head_update_ok : forall s f,
  sinv s -> fact_ok f ->
  sinv (hu s f) /\ rle (i_rows s) (i_rows (hu s f)) /\ below (dbof (i_rows (hu s f))) f /\ i_tick (hu s f) = i_tick s.
Proof.
  intros s [r t] Hs Hf. pose proof Hf as [Hd [Har Hwf]]. cbn [fst snd] in *. unfold head_update. cbn [fst snd].
  destruct (islat r) eqn:Hl.
  - pose proof (Hlaws r Hl) as L. specialize (Hwf eq_refl).
    assert (Hlt : 0 < length t) by (eapply Hlat1; eauto).
    destruct (orelse (find_key I (i_rows s r) (tkey t) (i_new s r))
                     (orelse (find_key I (i_rows s r) (tkey t) (D r)) (find_key I (i_rows s r) (tkey t) (T r)))) as [i|] eqn:Ef.
    + assert (Hex : exists row, nth_error (i_rows s r) i = Some row /\ tkey row = tkey t).
      { apply orelse_some in Ef. destruct Ef as [Ef|[_ Ef]]; [apply find_key_some in Ef; tauto|].
        apply orelse_some in Ef. destruct Ef as [Ef|[_ Ef]]; apply find_key_some in Ef; tauto. }
      destruct Hex as [row [Hi Hk]]. rewrite Hi.
      assert (Hin : In row (i_rows s r)) by (eapply nth_error_In; eauto).
      assert (Hlen : length row = length t) by (eapply (si_ar s Hs); eauto).
      assert (Hwr : lle r (tval I row) (tval I row)) by (apply (si_wf s Hs r row Hl Hin)).
      destruct (jm r (tval I row) (tval I t)) as [v' ch] eqn:Ej.
      assert (Ev : v' = fst (jm r (tval I row) (tval I t))) by (rewrite Ej; reflexivity).
      assert (Hle1 : lle r (tval I row) v') by (rewrite Ev; apply (ll_ub_l _ _ L); auto).
      assert (Hle2 : lle r (tval I t) v') by (rewrite Ev; apply (ll_ub_r _ _ L); auto).
      assert (Hbel : forall N c k, below (dbof (i_rows {| i_rows := upd (i_rows s) r (set_nth i (tkey row ++ [v']) (i_rows s r)); i_new := N; i_changed := c; i_tick := k |})) (r, t)).
      { intros N c k. exists (tkey row ++ [v']). cbn [fst snd i_rows]. split.
        - unfold dbof. rewrite upd_same. eapply nth_error_In. apply nth_error_set_nth_eq. eapply nth_error_In_lt; eauto.
        - unfold LatSem.tle. rewrite Hl, tkey_app, tval_app. split; [congruence|]. split; [|exact Hle2].
          rewrite len_row_upd by lia. congruence. }
      destruct ch.
      * destruct (raise_ok s r i row v' (upd (i_new s) r (nadd i (i_new s r))) true Hs Hl Hd Hi ltac:(lia) Hle1) as [H1 H2].
        { intros q Hq. rewrite upd_other; auto. }
        { left. rewrite upd_same. auto. }
        split; [exact H1|]. split; [exact H2|]. split; [apply Hbel | reflexivity].
      * destruct (raise_ok s r i row v' (i_new s) (i_changed s) Hs Hl Hd Hi ltac:(lia) Hle1) as [H1 H2].
        { intros q Hq. reflexivity. }
        { right. split; [reflexivity|]. split; [reflexivity|]. rewrite Ev. apply (join_unchanged islat lle jm Hlaws); auto. rewrite Ej. reflexivity. }
        split; [exact H1|]. split; [exact H2|]. split; [apply Hbel | reflexivity].
    + apply orelse_none in Ef. destruct Ef as [E1 Ef]. apply orelse_none in Ef. destruct Ef as [E2 E3].
      destruct (push_ok s r t Hs Hf) as [H1 [H2 H3]].
      { intros _ row Hin. apply In_nth_error in Hin. destruct Hin as [j Hj].
        assert (Hjl : j < length (i_rows s r)) by (eapply nth_error_In_lt; eauto).
        destruct (si_cov s Hs r j Hd Hjl) as [H|H].
        - destruct (Hcov0 r j Hd H) as [HT|HD].
          + exact (find_key_none _ _ _ E3 j row HT Hj).
          + exact (find_key_none _ _ _ E2 j row HD Hj).
        - exact (find_key_none _ _ _ E1 j row H Hj). }
      split; [exact H1|]. split; [exact H2|]. split; [exact H3 | reflexivity].
  - destruct (mem_row I (i_rows s r) t (T r) || mem_row I (i_rows s r) t (D r) || mem_row I (i_rows s r) t (i_new s r)) eqn:Em.
    + split; [exact Hs|]. split; [apply sinv_rle_refl; auto|]. split; [|reflexivity].
      assert (Hex : exists i, nth_error (i_rows s r) i = Some t).
      { apply orb_true_iff in Em. destruct Em as [Em|Em]; [apply orb_true_iff in Em; destruct Em as [Em|Em]|];
          apply mem_row_spec in Em; destruct Em as [i [_ Hi]]; eauto. }
      destruct Hex as [i Hi]. exists t. cbn [fst snd]. split; [eapply nth_error_In; eauto | apply tle_plain_refl; auto].
    + destruct (push_ok s r t Hs Hf) as [H1 [H2 H3]]; [intros E; congruence|].
      split; [exact H1|]. split; [exact H2|]. split; [exact H3 | reflexivity].
Qed.

(* the rows after a head update: old rows, the inserted fact, or an old row of the same key joined with it *)
Lemma head_update_rows : forall s f q rw,
  In rw (i_rows (hu s f) q) ->
  In rw (i_rows s q) \/ (q = fst f /\ rw = snd f)
  \/ (q = fst f /\ islat q = true /\ exists row, In row (i_rows s q) /\ tkey row = tkey (snd f)
        /\ rw = tkey row ++ [fst (jm q (tval I row) (tval I (snd f)))]).
Proof.
  intros s [r t] q rw. unfold head_update. cbn [fst snd].
  assert (Hpush : In rw (i_rows (push_row s r t) q) -> In rw (i_rows s q) \/ (q = r /\ rw = t)).
  { cbn [push_row i_rows]. destruct (Nat.eq_dec q r) as [->|Hne]; [rewrite upd_same | rewrite upd_other by auto; auto].
    intros H. apply in_app_or in H. destruct H as [H|[<-|[]]]; auto. }
  destruct (islat r) eqn:Hl.
  - destruct (orelse (find_key I (i_rows s r) (tkey t) (i_new s r))
                     (orelse (find_key I (i_rows s r) (tkey t) (D r)) (find_key I (i_rows s r) (tkey t) (T r)))) as [i|] eqn:Ef.
    + assert (Hex : exists row, nth_error (i_rows s r) i = Some row /\ tkey row = tkey t).
      { apply orelse_some in Ef. destruct Ef as [Ef|[_ Ef]]; [apply find_key_some in Ef; tauto|].
        apply orelse_some in Ef. destruct Ef as [Ef|[_ Ef]]; apply find_key_some in Ef; tauto. }
      destruct Hex as [row [Hi Hk]]. rewrite Hi.
      destruct (jm r (tval I row) (tval I t)) as [v' ch] eqn:Ej.
      assert (Hgen : In rw (upd (i_rows s) r (set_nth i (tkey row ++ [v']) (i_rows s r)) q) ->
                     In rw (i_rows s q) \/ (q = r /\ rw = t) \/
                     (q = r /\ islat q = true /\ exists row0, In row0 (i_rows s q) /\ tkey row0 = tkey t /\ rw = tkey row0 ++ [fst (jm q (tval I row0) (tval I t))])).
      { destruct (Nat.eq_dec q r) as [->|Hne]; [rewrite upd_same | rewrite upd_other by auto; auto].
        intros H. apply In_set_nth in H. destruct H as [->|H]; auto. right. right. split; auto. split; auto.
        exists row. split; [eapply nth_error_In; eauto|]. split; auto. rewrite Ej. reflexivity. }
      destruct ch; cbn [i_rows]; exact Hgen.
    + intros H. destruct (Hpush H); auto.
  - destruct (mem_row I (i_rows s r) t (T r) || mem_row I (i_rows s r) t (D r) || mem_row I (i_rows s r) t (i_new s r)); auto.
    intros H. destruct (Hpush H); auto.
Qed.

Lemma head_update_below : forall (J : db) s f,
  directed I islat lle J -> sinv s -> fact_ok f -> allbelow J (i_rows s) -> below J f -> allbelow J (i_rows (hu s f)).
Proof.
  intros J s [r t] HJ Hs Hf Hall Hb q rw Hin. pose proof Hf as [Hd [Har Hwf]]. cbn [fst snd] in *.
  destruct (head_update_rows s (r, t) q rw Hin) as [H|[[-> ->]|[-> [Hl [row [Hrow [Hk ->]]]]]]]; cbn [fst snd] in *.
  - apply Hall; auto.
  - exact Hb.
  - pose proof (Hlaws r Hl) as L.
    destruct (Hall r row Hrow) as [t1 [J1 L1]]. destruct Hb as [t2 [J2 L2]]. cbn [fst snd] in *.
    assert (Hlen : length row = length t) by (eapply (si_ar s Hs); eauto).
    assert (Hlt : 0 < length t) by (eapply Hlat1; eauto).
    pose proof L1 as L1'. pose proof L2 as L2'. unfold LatSem.tle in L1', L2'. rewrite Hl in L1', L2'.
    destruct L1' as [K1 [N1 O1]]. destruct L2' as [K2 [N2 O2]].
    destruct (HJ r t1 t2 Hl J1 J2) as [t3 [J3 [L13 L23]]]; [congruence | congruence |].
    exists t3. split; [exact J3|]. cbn [fst snd].
    pose proof L13 as L13'. pose proof L23 as L23'. unfold LatSem.tle in L13', L23'. rewrite Hl in L13', L23'.
    destruct L13' as [K13 [N13 O13]]. destruct L23' as [K23 [N23 O23]].
    unfold LatSem.tle. rewrite Hl, tkey_app, tval_app. split; [congruence|]. split.
    + rewrite len_row_upd by lia. congruence.
    + apply (ll_least _ _ L); eapply (ll_trans _ _ L); eauto.
Qed.

(* several heads of one rule instance *)
Lemma heads_update_ok : forall hs (e : venv V) s,
  sinv s -> (forall h f, In h hs -> veval_head I e h = Some f -> fact_ok f) ->
  let s' := heads_update I islat jm T D hs e s in
  sinv s' /\ rle (i_rows s) (i_rows s') /\ i_tick s' = i_tick s
  /\ forall h f, In h hs -> veval_head I e h = Some f -> below (dbof (i_rows s')) f.
Proof.
  unfold heads_update. induction hs as [|h hs IH]; intros e s Hs Hok; cbn [fold_left].
  - split; [exact Hs|]. split; [apply sinv_rle_refl; auto|]. split; [reflexivity|]. intros h f [].
  - destruct (veval_head I e h) as [f|] eqn:Eh.
    + destruct (head_update_ok s f Hs (Hok h f (or_introl eq_refl) Eh)) as [H1 [H2 [H3 H4]]].
      destruct (IH e (hu s f) H1) as [K1 [K2 [K3 K4]]]; [intros h' f' Hin; apply Hok; right; exact Hin|].
      split; [exact K1|]. split; [eapply (rle_trans I islat lle jm Hlaws); eauto|]. split; [congruence|].
      intros h' f' [<-|Hin] Ef'.
      * assert (f' = f) by congruence. subst f'. eapply (below_rle I islat lle jm Hlaws); eauto.
      * eapply K4; eauto.
    + destruct (IH e s Hs) as [K1 [K2 [K3 K4]]]; [intros h' f' Hin; apply Hok; right; exact Hin|].
      split; [exact K1|]. split; [exact K2|]. split; [exact K3|].
      intros h' f' [<-|Hin] Ef'; [congruence | eapply K4; eauto].
Qed.

Lemma heads_update_below : forall (J : db) hs (e : venv V) s,
  directed I islat lle J -> sinv s -> (forall h f, In h hs -> veval_head I e h = Some f -> fact_ok f /\ below J f) ->
  allbelow J (i_rows s) -> allbelow J (i_rows (heads_update I islat jm T D hs e s)).
Proof.
  unfold heads_update. intros J. induction hs as [|h hs IH]; intros e s HJ Hs Hok Hall; cbn [fold_left]; auto.
  destruct (veval_head I e h) as [f|] eqn:Eh.
  - destruct (Hok h f (or_introl eq_refl) Eh) as [F1 F2].
    destruct (head_update_ok s f Hs F1) as [H1 _].
    apply IH; auto. + intros h' f' Hin; apply Hok; right; exact Hin. + apply head_update_below; auto.
  - apply IH; auto. intros h' f' Hin; apply Hok; right; exact Hin.
Qed.
End Head.
