(* B13 - the known finding `lattice_value_column_index_stale` (known_findings.json; probe gen/c04_known.py
   PROGRAMS[0]) as a theorem about the FAITHFUL per-index model LatIndexedEval.v.

     relation e(i32, i32); lattice d(i32, i32); relation probe(i32); relation cnt(i32, i32); relation absent(i32);
     d(x, v) <-- e(x, v);
     cnt(v, n as i32) <-- probe(v), agg n = count() in d(_, v);
     absent(v) <-- probe(v), !d(_, v);
     e = {(1,3), (1,5), (2,3)}   probe = {3, 5, 7}

   The plan is the one the real front end dumps (relations 0 = e, 1 = d, 2 = probe, 3 = cnt, 4 = absent; the indices of d:
   the key index [0], the all-columns index [0,1], and [1] = the index of the two aggregates, over the lattice VALUE column).
   Row 0 of d is pushed as (1,3) and listed in d_indices_1 under 3; (1,5) raises it in place and re-inserts row number 0
   under 5; the entry under 3 stays.  The final lattice is d = {(1,5), (2,3)}: ONE row has the value 3, the index lists
   TWO row numbers under 3, so count() in d(_, 3) = 2 (and !d(_, v) would see a row that is not there).  The view engine
   LatAggEval.arun_plan, which re-tests the current row, gives 1 - on this plan it is not a model of the code
   (alat_plan_ok = false: LatAggMain's theorem excludes the plan), the per-index engine is (tie gen/lat_indexed_tie.py:
   model = implementation = 2).

   [lat_value_index_known_class]: the decidable class of plans in which a lattice relation is read through an index
   containing its value column is `alat_plan_ok islat arities pl = false`; xplan_ok implies alat_plan_ok, so the guarded
   theorem LatIndexedMain.lat_indexed_agg_stratified_model (the stratified lattice model holds for the per-index engine) never
   applies to a plan of the class, and the probe is in it. *)
From Coq Require Import List ZArith Bool Arith Lia.
From AV Require Import Engine.Core.
From AV Require Import Engine.Eval.
From AV Require Import Engine.Validate.
From AV Require Import Engine.Naive.
From AV Require Import Engine.Vocab.
From AV Require Import LatEngine.LatSyntax.
From AV Require Import LatEngine.LatEval.
From AV Require Import LatEngine.LatVocab.
From AV Require Import LatEngine.LatAggEval.
From AV Require Import LatEngine.LatIndexedEval.
Import ListNotations.
Open Scope Z_scope.

Definition pr_arities : list (rel * nat) := [(0%nat, 2%nat); (1%nat, 2%nat); (2%nat, 1%nat); (3%nat, 2%nat); (4%nat, 1%nat)].
Definition pr_lats : list (rel * nat) := [(1%nat, 0%nat)].                (* d : the max lattice on i32 *)
Definition pr_islat := lv_islat pr_lats.
Definition pr_jm := lv_jm pr_lats.
Definition pr_prog : list rule :=
  [{| heads := [(1%nat, [TVar 0%nat; TVar 1%nat])]; body := [BClause 0%nat [TVar 0%nat; TVar 1%nat] []] |};
   {| heads := [(3%nat, [TVar 0%nat; TFun 5%nat [1%nat]])];
      body := [BClause 2%nat [TVar 0%nat] []; BAgg (Some 1%nat) 0%nat [] 1%nat [AWild; AKey (TVar 0%nat)]] |};
   {| heads := [(4%nat, [TVar 0%nat])];
      body := [BClause 2%nat [TVar 0%nat] []; BAgg None 4%nat [] 1%nat [AWild; AKey (TVar 0%nat)]] |}].
Definition pr_plan : plan :=
  [{| s_vars := [{| v_rule := 0%nat; v_heads := [(1%nat, [TVar 0%nat; TVar 1%nat])];
                    v_items := [PClause 0%nat [TVar 0%nat; TVar 1%nat] [] [] VTotal]; v_sj := None; v_reord := false |}];
      s_dyn := [1%nat]; s_loop := false |};
   {| s_vars := [{| v_rule := 1%nat; v_heads := [(3%nat, [TVar 0%nat; TFun 5%nat [1%nat]])];
                    v_items := [PClause 2%nat [TVar 0%nat] [] [] VTotal; PAgg (Some 1%nat) 0%nat [] 1%nat [AWild; AKey (TVar 0%nat)] [1%nat]];
                    v_sj := None; v_reord := false |}];
      s_dyn := [3%nat]; s_loop := false |};
   {| s_vars := [{| v_rule := 2%nat; v_heads := [(4%nat, [TVar 0%nat])];
                    v_items := [PClause 2%nat [TVar 0%nat] [] [] VTotal; PAgg None 4%nat [] 1%nat [AWild; AKey (TVar 0%nat)] [1%nat]];
                    v_sj := None; v_reord := false |}];
      s_dyn := [4%nat]; s_loop := false |}].
Definition pr_in : rel -> list (list Z) :=
  fun r => if Nat.eqb r 0 then [[1; 3]; [1; 5]; [2; 3]] else if Nat.eqb r 2 then [[3]; [5]; [7]] else [].
(* the physical indices of the lattice d: key index [0], all-columns index [0,1], the aggregates' index [1] *)
Definition pr_decls : list xdecl := [(1%nat, [0%nat], true); (1%nat, [0%nat; 1%nat], false); (1%nat, [1%nat], false)].
(* the `[]` index of the plain relation e iterates in insertion order *)
Definition pr_order (n : nat) (l : list nat) : list nat := l.

Definition pr_run := xrun_plan lv_interp std_aint pr_islat pr_jm pr_order pr_order lv_swap (decls_of pr_decls) 50 pr_plan pr_in.

(* what `agg n = count() in d(_, v)` means on the final rows of d: the number of rows whose value is v *)
Definition count_spec (d cnt : list (list Z)) : Prop :=
  forall v n, In [v; n] cnt -> n = Z.of_nat (length (filter (fun row => Z.eqb (tval lv_interp row) v) d)).

Lemma pr_run_value : option_map (xshow [1%nat; 3%nat; 4%nat]) pr_run
  = Some ([(1%nat, [[1; 5]; [2; 3]]); (3%nat, [[3; 2]; [5; 1]; [7; 0]]); (4%nat, [[7]])],
          [(1%nat, [([0%nat], true, [([1], [0%nat]); ([2], [1%nat])]);
                    ([0%nat; 1%nat], false, []);
                    ([1%nat], false, [([3], [0%nat; 1%nat]); ([5], [0%nat])])]);
           (3%nat, []); (4%nat, [])]).
Proof. vm_compute. reflexivity. Qed.

(* the per-index engine on the probe: one final row of d has the value 3 - (2,3); the index on the value column still
   lists the raised row 0 under 3; cnt(3) = 2 *)
Theorem lat_value_index_stale_refuted : exists st,
  pr_run = Some st
  /\ l_rows (xl_s st) 1%nat = [[1; 5]; [2; 3]]
  /\ l_rows (xl_s st) 3%nat = [[3; 2]; [5; 1]; [7; 0]]
  /\ l_rows (xl_s st) 4%nat = [[7]]
  /\ xents (xl_ix st 1%nat) [1%nat] = [([3], [0%nat; 1%nat]); ([5], [0%nat])]
  /\ ~ count_spec (l_rows (xl_s st) 1%nat) (l_rows (xl_s st) 3%nat).
Proof.
  destruct pr_run as [st|] eqn:E; [|vm_compute in E; discriminate]. exists st. split; [reflexivity|].
  assert (H1 : l_rows (xl_s st) 1%nat = [[1; 5]; [2; 3]]) by (vm_compute in E; injection E as <-; reflexivity).
  assert (H3 : l_rows (xl_s st) 3%nat = [[3; 2]; [5; 1]; [7; 0]]) by (vm_compute in E; injection E as <-; reflexivity).
  assert (H4 : l_rows (xl_s st) 4%nat = [[7]]) by (vm_compute in E; injection E as <-; reflexivity).
  assert (H5 : xents (xl_ix st 1%nat) [1%nat] = [([3], [0%nat; 1%nat]); ([5], [0%nat])]) by (vm_compute in E; injection E as <-; reflexivity).
  repeat split; auto. rewrite H1, H3. intros H. specialize (H 3 2 (or_introl eq_refl)). vm_compute in H. discriminate.
Qed.

(* the view engine (each row read through its number and RE-TESTED against the key) gives 1 on the same plan: on plans of
   the known class it is not a model of the generated code *)
Theorem lat_value_index_view_engine_differs : exists st,
  arun_plan lv_interp std_aint pr_islat pr_jm pr_order pr_order lv_swap 50 pr_plan pr_in = Some st
  /\ l_rows st 3%nat = [[3; 1]; [5; 1]; [7; 0]]
  /\ count_spec (l_rows st 1%nat) (l_rows st 3%nat).
Proof.
  destruct (arun_plan lv_interp std_aint pr_islat pr_jm pr_order pr_order lv_swap 50 pr_plan pr_in) as [st|] eqn:E; [|vm_compute in E; discriminate].
  exists st. split; [reflexivity|].
  assert (H1 : l_rows st 1%nat = [[1; 5]; [2; 3]]) by (vm_compute in E; injection E as <-; reflexivity).
  assert (H3 : l_rows st 3%nat = [[3; 1]; [5; 1]; [7; 0]]) by (vm_compute in E; injection E as <-; reflexivity).
  split; [exact H3|]. rewrite H1, H3. intros v n Hin. cbn in Hin.
  destruct Hin as [Hin|[Hin|[Hin|[]]]]; injection Hin as <- <-; vm_compute; reflexivity.
Qed.

(* ---------- the decidable known class ---------- *)
Lemma ar_of_in : forall arities p, arities_functional arities -> In p arities -> ar_of arities (fst p) = snd p.
Proof.
  intros arities p Hf Hp. unfold ar_of. destruct (find (fun q => Nat.eqb (fst q) (fst p)) arities) as [q|] eqn:Ef.
  - apply find_some in Ef as [Hq E]. apply Nat.eqb_eq in E. destruct p as [r n]. destruct q as [r' m]. cbn [fst snd] in *. subst r'.
    exact (Hf r m n Hq Hp).
  - exfalso. pose proof (find_none _ _ Ef p Hp) as E. cbv beta in E. rewrite Nat.eqb_refl in E. discriminate.
Qed.

Theorem xplan_ok_alat_plan_ok : forall islat arities ds pl, arities_functional arities ->
  xplan_ok islat arities ds pl = true -> alat_plan_ok islat arities pl = true.
Proof.
  intros islat arities ds pl Hf H. unfold xplan_ok in H. apply andb_true_iff in H as [H _]. apply andb_true_iff in H as [H1 H2].
  unfold alat_plan_ok. apply andb_true_iff. split.
  - apply forallb_forall. intros sc Hsc. rewrite forallb_forall in H1. specialize (H1 sc Hsc).
    apply forallb_forall. intros v Hv. rewrite forallb_forall in H1. specialize (H1 v Hv).
    unfold xvariant_ok in H1. apply andb_true_iff in H1 as [H1 _]. unfold alat_variant_ok.
    apply forallb_forall. intros p Hp. rewrite forallb_forall in H1. specialize (H1 p Hp).
    assert (Hgen : forall r (n : nat) idx, Nat.eqb n (ar_of arities r) && (negb (islat r) || (xdeclared ds r idx && forallb (fun i => Nat.ltb (S i) (ar_of arities r)) idx && negb (Nat.eqb (length idx) (ar_of arities r)))) = true ->
              negb (islat r) || forallb (fun i => Nat.ltb (S i) n) idx = true).
    { intros r n idx Hx. apply andb_true_iff in Hx as [Hn Hx]. apply Nat.eqb_eq in Hn. subst n. destruct (islat r); [|reflexivity].
      cbn [negb orb] in *. apply andb_true_iff in Hx as [Hx _]. apply andb_true_iff in Hx as [_ Hx]. exact Hx. }
    destruct p as [r args cs idx ver|c|x g xs|o a bd r args idx]; cbn [alat_item_ok xitem_ok] in *; auto.
  - apply forallb_forall. intros p Hp. rewrite forallb_forall in H2. specialize (H2 p Hp). unfold xdecl_ok in H2.
    destruct (islat (fst p)); [|reflexivity]. cbn [negb orb] in *.
    apply andb_true_iff in H2 as [H2 _]. apply andb_true_iff in H2 as [H2 _]. apply andb_true_iff in H2 as [H2 _].
    rewrite (ar_of_in arities p Hf Hp) in H2. exact H2.
Qed.

Theorem lat_value_index_known_class :
  alat_plan_ok pr_islat pr_arities pr_plan = false
  /\ xplan_ok pr_islat pr_arities pr_decls pr_plan = false
  /\ validate pr_arities pr_prog pr_plan = true
  /\ (forall islat arities ds pl, arities_functional arities -> alat_plan_ok islat arities pl = false -> xplan_ok islat arities ds pl = false).
Proof.
  split; [vm_compute; reflexivity|]. split; [vm_compute; reflexivity|]. split; [vm_compute; reflexivity|].
  intros islat arities ds pl Hf H. destruct (xplan_ok islat arities ds pl) eqn:E; [|reflexivity].
  rewrite (xplan_ok_alat_plan_ok islat arities ds pl Hf E) in H. discriminate.
Qed.

Print Assumptions lat_value_index_stale_refuted.
Print Assumptions lat_value_index_view_engine_differs.
Print Assumptions lat_value_index_known_class.
