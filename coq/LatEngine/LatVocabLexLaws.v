(* C03 - the lexicographic tuple lattice columns of the tie vocabulary (LatVocabLex.v) satisfy the lattice hypothesis of the
   C03 theorems ON CODES: for every type id 20..30, (code_le .., lat3_jm id) is a lat_laws structure on Z, where a <= b iff
   both codes are in range and the decoded values are elements of the shipped type with dec a <= dec b IN THE PartialOrd OF THE
   TYPE (Lattice/LatLaws.v le = partial_cmp is Less or Equal) - although the mirrored join_mut (tuple.rs) decides through Ord::cmp.
   Obtained from C16 (LatC16.shipped_lattices_ok) along the coding: these lattices are total orders and the mirrored
   join_mut returns one of its two arguments, so the codes in range are closed under it (via_lat_laws_pick).

   The last part shows that the agreement of Ord::cmp with partial_cmp in every COMPONENT type is what this rests on: with a
   Dual whose Ord::cmp is not flipped (the order of T instead of its reverse; partial_cmp, the operators, join / meet of Dual
   itself untouched) the tuple (Dual<u32>, u32) stops being a lattice - its join_mut keeps a value that is not an upper bound. *)
From Coq Require Import List ZArith Bool Lia.
From AV Require Import Lattice.LatModel.
From AV Require Import Lattice.LatLaws.
From AV Require Import Lattice.LatMain.
From AV Require Import LatEngine.LatSem.
From AV Require Import LatEngine.LatC16.
From AV Require Import LatEngine.LatVocab.
From AV Require Import LatEngine.LatVocabArr.
From AV Require Import LatEngine.LatVocabArrLaws.
From AV Require Import LatEngine.LatVocabLex.
Import ListNotations.
Open Scope Z_scope.

Section Pick.
Context {T : Type}.
Variable le : T -> T -> Prop.
Variable jmT : T -> T -> T * bool.
Variable dec : Z -> T.
Variable en : T -> Z.
Variable R : Z -> Prop.

Lemma via_lat_laws_pick :
  lat_laws le jmT ->
  (forall c, R c -> en (dec c) = c) ->
  (forall x y, fst (jmT x y) = x \/ fst (jmT x y) = y) ->
  lat_laws (code_le le dec R) (via jmT dec en).
Proof.
  intros L RT PK. apply via_lat_laws; auto.
  intros a b Ra Rb _ _. destruct (PK (dec a) (dec b)) as [E|E]; rewrite E.
  - rewrite (RT a Ra). auto.
  - rewrite (RT b Rb). auto.
Qed.
End Pick.

(* ---------------------------------------------------------------- the mirrored join_mut returns one of its arguments *)
Lemma tuple_jm_pick C (a b : ccar C) : fst (jm (TupleLat C) a b) = a \/ fst (jm (TupleLat C) a b) = b.
Proof. cbn. destruct (clex_cmp_of C a b); cbn; auto. Qed.
Lemma tuple_mm_pick C (a b : ccar C) : fst (mm (TupleLat C) a b) = a \/ fst (mm (TupleLat C) a b) = b.
Proof. cbn. destruct (clex_cmp_of C a b); cbn; auto. Qed.
Lemma ltuple_jm_pick ts (a b : carrier (denote (LTuple ts))) : fst (jm (denote (LTuple ts)) a b) = a \/ fst (jm (denote (LTuple ts)) a b) = b.
Proof. exact (tuple_jm_pick (denotes ts) a b). Qed.
Lemma opt_jm_pick L : (forall x y, fst (jm L x y) = x \/ fst (jm L x y) = y) ->
  forall a b, fst (jm (OptionLat L) a b) = a \/ fst (jm (OptionLat L) a b) = b.
Proof.
  intros H [x|] [y|]; cbn; auto.
  destruct (jm L x y) as [v f] eqn:E. cbn. destruct (H x y) as [K|K]; rewrite E in K; cbn in K; subst; auto.
Qed.
Lemma ord_jm_pick L a b : fst (jm (OrdLat L) a b) = a \/ fst (jm (OrdLat L) a b) = b.
Proof. cbn. destruct (plt L a b); cbn; auto. Qed.

(* ---------------------------------------------------------------- codes in range round-trip *)
Definition RK2 (c : Z) : Prop := 0 <= c < 1048576.
Definition RK3 (c : Z) : Prop := 0 <= c < 1073741824.
Definition RKO (c : Z) : Prop := 0 <= c < 1048577.

Lemma u2_p2 c : RK2 c -> u2 (p2 c) = c.
Proof. unfold RK2, u2, p2, kenc. cbn. intros H. pose proof (Z.div_mod c 1024). lia. Qed.
Lemma u3_p3 c : RK3 c -> u3 (p3 c) = c.
Proof.
  unfold RK3, u3, p3, kenc. cbn. intros H.
  pose proof (Z.div_mod c 1024). pose proof (Z.div_mod (c / 1024) 1024).
  assert (E : c / 1048576 = c / 1024 / 1024) by (rewrite Z.div_div by lia; reflexivity). lia.
Qed.
Lemma un3_n3 c : RK3 c -> un3 (n3 c) = c.
Proof. intros H. rewrite <- (u3_p3 c H) at 2. reflexivity. Qed.
Lemma uoc_oc a : uoc (oc a) = a.
Proof. unfold uoc, oc. destruct (a =? 0) eqn:E; [apply Z.eqb_eq in E; lia | lia]. Qed.
Lemma uo2_po2 c : RK2 c -> uo2 (po2 c) = c.
Proof. intros H. unfold uo2, po2. cbn [fst snd]. rewrite uoc_oc. exact (u2_p2 c H). Qed.
Lemma uop2_op2 c : RKO c -> uop2 (op2 c) = c.
Proof.
  unfold RKO, uop2, op2. intros H. destruct (c =? 0) eqn:E; [apply Z.eqb_eq in E; lia|]. apply Z.eqb_neq in E.
  rewrite u2_p2 by (unfold RK2; lia). lia.
Qed.

(* ---------------------------------------------------------------- the eleven types *)
Theorem lexdu_codes_lattice : lat_laws (code_le (T := Z * Z) (ok_le (denote t_lexdu)) p2 RK2) (lat3_jm 20).
Proof. change (lat3_jm 20) with (via (T := Z * Z) (jm (denote t_lexdu)) p2 u2). apply via_lat_laws_pick; [exact (shipped_lattices_ok t_lexdu eq_refl) | exact u2_p2 | exact (ltuple_jm_pick (LCons (LDual u32) (LOne u32)))]. Qed.
Theorem lexud_codes_lattice : lat_laws (code_le (T := Z * Z) (ok_le (denote t_lexud)) p2 RK2) (lat3_jm 21).
Proof. change (lat3_jm 21) with (via (T := Z * Z) (jm (denote t_lexud)) p2 u2). apply via_lat_laws_pick; [exact (shipped_lattices_ok t_lexud eq_refl) | exact u2_p2 | exact (ltuple_jm_pick (LCons u32 (LOne (LDual u32))))]. Qed.
Theorem lexdd_codes_lattice : lat_laws (code_le (T := Z * Z) (ok_le (denote t_lexdd)) p2 RK2) (lat3_jm 22).
Proof. change (lat3_jm 22) with (via (T := Z * Z) (jm (denote t_lexdd)) p2 u2). apply via_lat_laws_pick; [exact (shipped_lattices_ok t_lexdd eq_refl) | exact u2_p2 | exact (ltuple_jm_pick (LCons (LDual u32) (LOne (LDual u32))))]. Qed.
Theorem lexudu_codes_lattice : lat_laws (code_le (T := Z * (Z * Z)) (ok_le (denote t_lexudu)) p3 RK3) (lat3_jm 23).
Proof. change (lat3_jm 23) with (via (T := Z * (Z * Z)) (jm (denote t_lexudu)) p3 u3). apply via_lat_laws_pick; [exact (shipped_lattices_ok t_lexudu eq_refl) | exact u3_p3 | exact (ltuple_jm_pick (LCons u32 (LCons (LDual u32) (LOne u32))))]. Qed.
Theorem lexdud_codes_lattice : lat_laws (code_le (T := Z * (Z * Z)) (ok_le (denote t_lexdud)) p3 RK3) (lat3_jm 24).
Proof. change (lat3_jm 24) with (via (T := Z * (Z * Z)) (jm (denote t_lexdud)) p3 u3). apply via_lat_laws_pick; [exact (shipped_lattices_ok t_lexdud eq_refl) | exact u3_p3 | exact (ltuple_jm_pick (LCons (LDual u32) (LCons u32 (LOne (LDual u32)))))]. Qed.
Theorem lexru_codes_lattice : lat_laws (code_le (T := Z * Z) (ok_le (denote t_lexru)) p2 RK2) (lat3_jm 25).
Proof. change (lat3_jm 25) with (via (T := Z * Z) (jm (denote t_lexru)) p2 u2). apply via_lat_laws_pick; [exact (shipped_lattices_ok t_lexru eq_refl) | exact u2_p2 | exact (ltuple_jm_pick (LCons (LReverse u32) (LOne u32)))]. Qed.
Theorem lexod_codes_lattice : lat_laws (code_le (T := option Z * Z) (ok_le (denote t_lexod)) po2 RK2) (lat3_jm 26).
Proof. change (lat3_jm 26) with (via (T := option Z * Z) (jm (denote t_lexod)) po2 uo2). apply via_lat_laws_pick; [exact (shipped_lattices_ok t_lexod eq_refl) | exact uo2_po2 | exact (ltuple_jm_pick (LCons (LOption u32) (LOne (LDual u32))))]. Qed.
Theorem dlexuu_codes_lattice : lat_laws (code_le (T := Z * Z) (ok_le (denote t_dlexuu)) p2 RK2) (lat3_jm 27).
Proof. change (lat3_jm 27) with (via (T := Z * Z) (jm (denote t_dlexuu)) p2 u2). apply via_lat_laws_pick; [exact (shipped_lattices_ok t_dlexuu eq_refl) | exact u2_p2 | exact (tuple_mm_pick (denotes (LCons u32 (LOne u32))))]. Qed.
Theorem olexdu_codes_lattice : lat_laws (code_le (T := option (Z * Z)) (ok_le (denote t_olexdu)) op2 RKO) (lat3_jm 28).
Proof.
  change (lat3_jm 28) with (via (T := option (Z * Z)) (jm (denote t_olexdu)) op2 uop2).
  apply via_lat_laws_pick; [exact (shipped_lattices_ok t_olexdu eq_refl) | exact uop2_op2 | exact (opt_jm_pick (denote t_lexdu) (ltuple_jm_pick (LCons (LDual u32) (LOne u32))))].
Qed.
Theorem lexnest_codes_lattice : lat_laws (code_le (T := (Z * Z) * Z) (ok_le (denote t_lexnest)) n3 RK3) (lat3_jm 29).
Proof. change (lat3_jm 29) with (via (T := (Z * Z) * Z) (jm (denote t_lexnest)) n3 un3). apply via_lat_laws_pick; [exact (shipped_lattices_ok t_lexnest eq_refl) | exact un3_n3 | exact (ltuple_jm_pick (LCons t_lexdu (LOne u32)))]. Qed.
Theorem ordlexdu_codes_lattice : lat_laws (code_le (T := Z * Z) (ok_le (denote t_ordlexdu)) p2 RK2) (lat3_jm 30).
Proof. change (lat3_jm 30) with (via (T := Z * Z) (jm (denote t_ordlexdu)) p2 u2). apply via_lat_laws_pick; [exact (shipped_lattices_ok t_ordlexdu eq_refl) | exact u2_p2 | exact (ord_jm_pick (denote t_lexdu))]. Qed.

(* ---------------------------------------------------------------- what it rests on: Ord::cmp of every component agrees with partial_cmp *)
(* Dual<T> with `fn cmp(&self, other) = self.0.cmp(&other.0)` (not flipped); everything else as shipped *)
Definition DualLatCmpUnflipped (L : LatImpl) : LatImpl := {|
  carrier := carrier L;
  wfb := wfb L;
  eqb := eqb L;
  pcmp a b := pcmp L b a;
  ocmp := ocmp L;
  mm := jm L;
  jm := mm L;
  mv := jv L;
  jv := mv L;
  bnd := match bnd L with Some (b, t) => Some (t, b) | None => None end
|}.
Definition bad_lexdu : LatImpl := TupleLat (CCons (DualLatCmpUnflipped (denote u32)) (COne (denote u32))).

(* the wrapper itself is still a lattice on the values the tie uses, the tuple over it is not: (Dual(5), 0) joined with (Dual(3), 0)
   keeps (Dual(5), 0), which is not above (Dual(3), 0); by-value join (Ord::max = `if other < self`, PartialOrd) still returns (Dual(3), 0) *)
Theorem tuple_join_mut_needs_component_cmp_agreement_refuted :
  exists a b : carrier bad_lexdu,
    wf bad_lexdu a /\ wf bad_lexdu b /\ le bad_lexdu a b /\
    fst (jm bad_lexdu a b) = a /\ snd (jm bad_lexdu a b) = false /\ ~ le bad_lexdu b (fst (jm bad_lexdu a b)) /\
    jv bad_lexdu a b = b /\
    jm (DualLatCmpUnflipped (denote u32)) (fst a) (fst b) = (fst b, true).
Proof.
  exists (5, 0), (3, 0). vm_compute. repeat split; try reflexivity. intros H. discriminate H.
Qed.
