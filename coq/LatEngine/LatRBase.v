(* C13 / C14, lattice half - shared lemmas of LatRerun.v and LatTimeout.v.
   1. the order on rows is antisymmetric; the Hoare order on sets of facts is transitive; two sets of rows with one
      row per key that are below each other hold the same rows;
   2. [is_lfp Rin F]: F is THE least fixed point above the input Rin (the four conjuncts of c03_least_fixed_point);
      [between Rin R]: the rows R are a legal input that lies between Rin and every fixed point above Rin - what a
      completed run, an interrupted run, and any sequence of them leaves behind; a run started from such rows
      computes the least fixed point of Rin;
   3. plain relations: the rows are only appended to, every appended row is new ([padd]), for EVERY program
      accepted by the validator, at every state a run can reach (after any number of evaluations of the rules
      of an SCC: LatScc.loop_reach). *)
From Coq Require Import List ZArith Bool Arith Lia Permutation.
From AV Require Import Engine.Core.
From AV Require Import Engine.Eval.
From AV Require Import Engine.Validate.
From AV Require Import Engine.Naive.
From AV Require Import Engine.NaiveLemmas.
From AV Require Engine.Strata.
From AV Require Engine.SemiNaive.
From AV Require Import LatEngine.LatSyntax.
From AV Require Import LatEngine.LatEval.
From AV Require Import LatEngine.LatPlan.
From AV Require Import LatEngine.LatSem.
From AV Require Import LatEngine.LatEnv.
From AV Require Import LatEngine.LatClause.
From AV Require Import LatEngine.LatMono.
From AV Require Import LatEngine.LatBase.
From AV Require Import LatEngine.LatHead.
From AV Require Import LatEngine.LatItems.
From AV Require Import LatEngine.LatScc.
From AV Require Import LatEngine.LatKeys.
From AV Require Import LatEngine.LatMain.
Import ListNotations.
Local Open Scope nat_scope.

(* ---------- lists ---------- *)
Lemma nth_error_all_eq : forall (A : Type) (l l' : list A), (forall i, nth_error l i = nth_error l' i) -> l = l'.
Proof.
  intros A. induction l as [|x l IH]; intros l' H.
  - destruct l' as [|y l']; [reflexivity|]. specialize (H 0). discriminate.
  - destruct l' as [|y l']; [specialize (H 0); discriminate|].
    pose proof (H 0) as H0. cbn in H0. injection H0 as ->. f_equal. apply IH. intros i. exact (H (S i)).
Qed.

Lemma NoDup_app_both : forall (A : Type) (l1 l2 : list A), NoDup l1 -> NoDup l2 -> (forall x, In x l1 -> ~ In x l2) -> NoDup (l1 ++ l2).
Proof.
  intros A. induction l1 as [|a l1 IH]; intros l2 H1 H2 Hd; cbn; [exact H2|].
  inversion H1 as [|? ? Ha H1']; subst. constructor.
  - intros Hin. apply in_app_or in Hin. destruct Hin as [Hin|Hin]; [exact (Ha Hin)|]. exact (Hd a (or_introl eq_refl) Hin).
  - apply IH; auto. intros x Hx. apply Hd. right. exact Hx.
Qed.

Lemma NoDup_app_disjoint : forall (A : Type) (l1 l2 : list A) x, NoDup (l1 ++ l2) -> In x l1 -> In x l2 -> False.
Proof.
  intros A. induction l1 as [|a l1 IH]; intros l2 x Hn H1 H2; [destruct H1|].
  cbn in Hn. inversion Hn as [|? ? Ha Hn']; subst. destruct H1 as [->|H1].
  - apply Ha. apply in_or_app. right. exact H2.
  - exact (IH l2 x Hn' H1 H2).
Qed.

Lemma NoDup_app_right : forall (A : Type) (l1 l2 : list A), NoDup (l1 ++ l2) -> NoDup l2.
Proof. intros A. induction l1 as [|a l1 IH]; intros l2 H; cbn in H; [exact H|]. inversion H; subst. apply IH. assumption. Qed.

Section Order.
Context {V : Type}.
Variable I : linterp V.
Variable islat : rel -> bool.
Variable lle : rel -> V -> V -> Prop.
Variable jm : rel -> V -> V -> V * bool.
Hypothesis Hlaws : forall r, islat r = true -> lat_laws (lle r) (jm r).

Notation tle := (tle I islat lle).
Notation below := (below I islat lle).
Notation dble := (dble I islat lle).
Notation directed := (directed I islat lle).

(* a row is its key columns, its length and its last column *)
Lemma tuple_ext : forall (a b : vtuple V), tkey a = tkey b -> length a = length b -> tval I a = tval I b -> a = b.
Proof.
  intros a b Hk Hl Hv. destruct (length a) as [|n] eqn:Ea.
  - destruct a; [|discriminate]. destruct b; [reflexivity|discriminate].
  - destruct (split_last I a n Ea) as [Ha _]. destruct (split_last I b n (eq_sym Hl)) as [Hb _].
    rewrite Ha, Hb, Hk, Hv. reflexivity.
Qed.

Lemma tle_antisym : forall r (a b : vtuple V), tle r a b -> tle r b a -> a = b.
Proof.
  intros r a b. unfold LatSem.tle. destruct (islat r) eqn:E; [|auto].
  intros [K1 [L1 O1]] [_ [_ O2]]. apply tuple_ext; auto. apply (ll_antisym _ _ (Hlaws r E)); auto.
Qed.

Lemma dble_trans : forall (A B C : db (V:=V)), dble A B -> dble B C -> dble A C.
Proof.
  intros A B C H1 H2 r t Ht. destruct (H1 r t Ht) as [t' [Hin Hle]]. cbn [fst snd] in *.
  apply (below_trans I islat lle jm Hlaws C r t t' Hle). apply H2. exact Hin.
Qed.

Lemma dble_rows_refl : forall R, rows_wf I islat lle R -> dble (dbof R) (dbof R).
Proof.
  intros R Hwf r t Ht. exists t. split; [exact Ht|]. cbn [fst snd]. apply (tle_refl I islat lle). intros E. apply (Hwf r t E Ht).
Qed.

Lemma rle_dble : forall R R', LatBase.rle I islat lle R R' -> dble (dbof R) (dbof R').
Proof.
  intros R R' H r t Ht. unfold dbof in Ht. apply In_nth_error in Ht. destruct Ht as [i Hi].
  destruct (H r i t Hi) as [row' [E Hle]]. exists row'. split; [eapply nth_error_In; eauto | exact Hle].
Qed.

(* two sets of rows, the first with one row per key, that are below each other: every row of the first is a row of
   the second *)
Lemma mutual_dble_incl : forall R1 R2, keys_ok islat R1 -> dble (dbof R1) (dbof R2) -> dble (dbof R2) (dbof R1) ->
  forall r t, In t (R1 r) -> In t (R2 r).
Proof.
  intros R1 R2 HK H12 H21 r t Ht. destruct (H12 r t Ht) as [t' [Hin' Hle']]. cbn [fst snd] in *.
  destruct (H21 r t' Hin') as [t'' [Hin'' Hle'']]. cbn [fst snd] in *. unfold dbof in *.
  assert (Ht'' : t = t'').
  { pose proof (tle_trans I islat lle jm Hlaws r t t' t'' Hle' Hle'') as Hle. destruct (islat r) eqn:E.
    - apply (nodup_map_inj _ _ tkey (R1 r)); auto. unfold LatSem.tle in Hle. rewrite E in Hle. tauto.
    - apply (tle_plain I islat lle r t t'' E Hle). }
  subst t''. rewrite (tle_antisym r t t' Hle' Hle''). exact Hin'.
Qed.

Lemma mutual_dble_same : forall R1 R2, keys_ok islat R1 -> keys_ok islat R2 -> dble (dbof R1) (dbof R2) -> dble (dbof R2) (dbof R1) ->
  (forall r t, In t (R1 r) <-> In t (R2 r)) /\ (forall r, islat r = true -> Permutation (R1 r) (R2 r)).
Proof.
  intros R1 R2 K1 K2 H12 H21.
  assert (Hs : forall r t, In t (R1 r) <-> In t (R2 r)).
  { intros r t. split; [apply mutual_dble_incl | apply mutual_dble_incl]; auto. }
  split; [exact Hs|]. intros r E. apply NoDup_Permutation; [| |apply Hs].
  - apply (NoDup_map_inv tkey). apply K1. exact E.
  - apply (NoDup_map_inv tkey). apply K2. exact E.
Qed.
End Order.

(* ---------- least fixed points and the rows between the input and them ---------- *)
Section Lfp.
Context {V : Type}.
Variable I : linterp V.
Hypothesis Heq : veqb_ok I.
Variable islat : rel -> bool.
Variable lle : rel -> V -> V -> Prop.
Variable jm : rel -> V -> V -> V * bool.
Hypothesis Hlaws : forall r, islat r = true -> lat_laws (lle r) (jm r).
Variable shuffle : nat -> list nat -> list nat.
Hypothesis Hshuf : forall n l x, In x (shuffle n l) <-> In x l.
Variable swap_oracle : nat -> list nat -> list nat -> bool.
Variable arities : list (rel * nat).
Hypothesis Hfun : arities_functional arities.
Variable P : list rule.
Hypothesis Hnoagg : no_agg P = true.
Hypothesis Hmono : monotone_program I islat lle P.
Variable pl : plan.
Hypothesis Hval : validate arities P pl = true.
Hypothesis Hlatplan : lat_plan_ok islat arities pl = true.

Notation dble := (dble I islat lle).
Notation directed := (directed I islat lle).
Notation closedH := (closedH I islat lle P).
Notation input_ok := (input_ok I islat lle arities).
Notation run := (run_plan I islat jm shuffle swap_oracle).

Definition is_lfp (Rin : rel -> list (vtuple V)) (F : db (V:=V)) : Prop :=
  directed F /\ closedH F /\ dble (dbof Rin) F /\
  forall J : db, directed J -> closedH J -> dble (dbof Rin) J -> dble F J.

Definition between (Rin R : rel -> list (vtuple V)) : Prop :=
  input_ok R /\ dble (dbof Rin) (dbof R) /\
  forall J : db, directed J -> closedH J -> dble (dbof Rin) J -> dble (dbof R) J.

Lemma between_refl : forall Rin, input_ok Rin -> between Rin Rin.
Proof.
  intros Rin Hin. split; [exact Hin|]. split; [|auto]. apply (dble_rows_refl I islat lle). apply Hin.
Qed.

Lemma between_trans : forall A B C, between A B -> between B C -> between A C.
Proof.
  intros A B C [_ [H1 H2]] [HC [H3 H4]]. split; [exact HC|]. split.
  - eapply (dble_trans I islat lle jm Hlaws); eauto.
  - intros J HJd HJc HJ. apply H4; auto.
Qed.

Lemma run_lfp : forall Rin fuel st, input_ok Rin -> run fuel pl Rin = Some st -> is_lfp Rin (dbof (l_rows st)).
Proof.
  intros Rin fuel st Hin Hrun.
  exact (lat_run_least_fixed_point I Heq islat lle jm Hlaws shuffle Hshuf swap_oracle arities Hfun P Hnoagg Hmono pl Hval Hlatplan Rin Hin fuel st Hrun).
Qed.

(* the rows left by a run are a legal input of the next run *)
Lemma run_input_ok : forall Rin fuel st, input_ok Rin -> run fuel pl Rin = Some st -> input_ok (l_rows st).
Proof.
  intros Rin fuel st Hin Hrun.
  destruct (run_GI_wf I Heq islat lle jm Hlaws shuffle Hshuf swap_oracle arities Hfun P Hnoagg Hmono pl Hval Hlatplan Rin Hin fuel st Hrun) as [HR _].
  split; [exact (ro_ar _ _ _ _ _ _ HR)|]. split; [exact (ro_key _ _ _ _ _ _ HR) | exact (ro_wf _ _ _ _ _ _ HR)].
Qed.

Lemma run_between : forall Rin fuel st, input_ok Rin -> run fuel pl Rin = Some st -> between Rin (l_rows st).
Proof.
  intros Rin fuel st Hin Hrun. destruct (run_lfp Rin fuel st Hin Hrun) as [_ [_ [H3 H4]]].
  split; [eapply run_input_ok; eauto|]. split; [exact H3 | exact H4].
Qed.

(* a run started from rows between the input and its fixed points computes THE least fixed point of the input *)
Lemma run_from_between : forall Rin R fuel st, between Rin R -> run fuel pl R = Some st -> is_lfp Rin (dbof (l_rows st)).
Proof.
  intros Rin R fuel st [HR [H1 H2]] Hrun. destruct (run_lfp R fuel st HR Hrun) as [F1 [F2 [F3 F4]]].
  split; [exact F1|]. split; [exact F2|]. split.
  - eapply (dble_trans I islat lle jm Hlaws); eauto.
  - intros J HJd HJc HJ. apply F4; auto.
Qed.

(* the least fixed point is unique: two results hold the same rows *)
Lemma lfp_same_rows : forall Rin R1 R2, keys_ok islat R1 -> keys_ok islat R2 ->
  is_lfp Rin (dbof R1) -> is_lfp Rin (dbof R2) ->
  (forall r t, In t (R1 r) <-> In t (R2 r)) /\ (forall r, islat r = true -> Permutation (R1 r) (R2 r)).
Proof.
  intros Rin R1 R2 K1 K2 [A1 [A2 [A3 A4]]] [B1 [B2 [B3 B4]]].
  apply (mutual_dble_same I islat lle jm Hlaws); auto.
Qed.
End Lfp.

(* ---------- plain relations are only appended to, by new rows ---------- *)
Section Plain.
Context {V : Type}.
Variable I : linterp V.
Hypothesis Heq : veqb_ok I.
Variable islat : rel -> bool.
Variable jm : rel -> V -> V -> V * bool.
Variable shuffle : nat -> list nat -> list nat.
Variable swap_oracle : nat -> list nat -> list nat -> bool.

Definition padd (B R : rel -> list (vtuple V)) : Prop :=
  forall r, islat r = false -> exists added, R r = B r ++ added /\ NoDup added /\ (forall t, In t added -> ~ In t (B r)).

Lemma padd_refl : forall B, padd B B.
Proof. intros B r _. exists []. split; [rewrite app_nil_r; reflexivity|]. split; [constructor | intros t []]. Qed.

Lemma padd_trans : forall A B C, padd A B -> padd B C -> padd A C.
Proof.
  intros A B C H1 H2 r E. destruct (H1 r E) as [a1 [E1 [N1 D1]]]. destruct (H2 r E) as [a2 [E2 [N2 D2]]].
  exists (a1 ++ a2). split; [rewrite E2, E1, app_assoc; reflexivity|]. split.
  - apply NoDup_app_both; auto. intros x Hx1 Hx2. apply (D2 x Hx2). rewrite E1. apply in_or_app. right. exact Hx1.
  - intros t Ht Hin. apply in_app_or in Ht. destruct Ht as [Ht|Ht]; [exact (D1 t Ht Hin)|].
    apply (D2 t Ht). rewrite E1. apply in_or_app. left. exact Hin.
Qed.

Lemma padd_nodup : forall B R r, padd B R -> islat r = false -> NoDup (B r) -> NoDup (R r).
Proof.
  intros B R r H E HB. destruct (H r E) as [a [Ea [Na Da]]]. rewrite Ea. apply NoDup_app_both; auto.
  intros x Hx Hxa. exact (Da x Hxa Hx).
Qed.

Section Iter.
Variable dyn : list rel.
Variables St T D : rel -> list nat.
Variable R0 : rel -> list (vtuple V).
Hypothesis Hcov0 : forall r i, is_dyn dyn r = true -> i < length (R0 r) -> In i (T r) \/ In i (D r).
Variable B : rel -> list (vtuple V).

Definition pinv (s : @istate V) : Prop := kinv islat dyn R0 s /\ padd B (i_rows s).

Lemma pinv_tick : forall s, pinv s -> pinv (tick s).
Proof. intros s [H1 H2]. split; [apply kinv_tick; exact H1 | exact H2]. Qed.

Lemma padd_upd_lat : forall R r X, islat r = true -> padd B R -> padd B (upd R r X).
Proof. intros R r X E H q Eq. rewrite upd_other by (intros ->; congruence). apply H. exact Eq. Qed.

Lemma pinv_head : forall s f, pinv s -> is_dyn dyn (fst f) = true -> pinv (head_update I islat jm T D s f).
Proof.
  intros s f [Hk Hp] Hd. split; [apply (kinv_head I Heq islat jm shuffle swap_oracle dyn St T D R0 Hcov0); auto|].
  destruct f as [r t]. cbn [fst] in Hd. unfold head_update. cbn [fst snd]. destruct (islat r) eqn:Hl.
  - destruct (orelse (find_key I (i_rows s r) (tkey t) (i_new s r))
                     (orelse (find_key I (i_rows s r) (tkey t) (D r)) (find_key I (i_rows s r) (tkey t) (T r)))) as [i|].
    + destruct (nth_error (i_rows s r) i) as [row|]; [|exact Hp].
      destruct (jm r (tval I row) (tval I t)) as [v' ch]. destruct ch; cbn [i_rows]; apply padd_upd_lat; auto.
    + cbn [push_row i_rows]. apply padd_upd_lat; auto.
  - destruct (mem_row I (i_rows s r) t (T r) || mem_row I (i_rows s r) t (D r) || mem_row I (i_rows s r) t (i_new s r)) eqn:Em; [exact Hp|].
    apply orb_false_iff in Em. destruct Em as [Em E3]. apply orb_false_iff in Em. destruct Em as [E1 E2].
    assert (Hnot : ~ In t (i_rows s r)).
    { intros Hin. apply In_nth_error in Hin. destruct Hin as [j Hj]. pose proof (nth_error_In_lt _ _ _ _ Hj) as Hjl.
      assert (Hm : forall l, In j l -> mem_row I (i_rows s r) t l = true).
      { intros l0 Hl0. apply (mem_row_spec I Heq). exists j. split; assumption. }
      destruct (ki_cov _ _ _ _ Hk r j Hd Hjl) as [H|H].
      - destruct (Hcov0 r j Hd H) as [HT|HD]; [rewrite (Hm _ HT) in E1 | rewrite (Hm _ HD) in E2]; discriminate.
      - rewrite (Hm _ H) in E3. discriminate. }
    cbn [push_row i_rows]. intros q Eq. destruct (Nat.eq_dec q r) as [->|Hne]; [|rewrite upd_other by auto; apply Hp; exact Eq].
    rewrite upd_same. destruct (Hp r Eq) as [a [Ea [Na Da]]]. exists (a ++ [t]). split; [rewrite Ea, app_assoc; reflexivity|].
    split.
    + apply NoDup_app_intro_single; auto. intros Hin. apply Hnot. rewrite Ea. apply in_or_app. right. exact Hin.
    + intros x Hx Hin. apply in_app_or in Hx. destruct Hx as [Hx|[<-|[]]]; [exact (Da x Hx Hin)|].
      apply Hnot. rewrite Ea. apply in_or_app. left. exact Hin.
Qed.

Lemma pinv_heads : forall hs (e : venv V) s, pinv s -> (forall h, In h hs -> is_dyn dyn (fst h) = true) -> pinv (heads_update I islat jm T D hs e s).
Proof.
  unfold heads_update. induction hs as [|h hs IH]; intros e s Hs Hd; cbn [fold_left]; auto.
  destruct (veval_head I e h) as [f|] eqn:Ef.
  - apply IH; [|intros h' Hh'; apply Hd; right; exact Hh']. apply pinv_head; auto.
    unfold veval_head in Ef. destruct (veval_terms I e (snd h)); [|discriminate]. injection Ef as <-. cbn. apply Hd. left. reflexivity.
  - apply IH; auto. intros h' Hh'. apply Hd. right. exact Hh'.
Qed.

Lemma pinv_variant : forall v s, pinv s -> (forall h, In h (v_heads v) -> is_dyn dyn (fst h) = true) ->
  pinv (eval_variant I islat jm shuffle swap_oracle dyn St T D s v).
Proof.
  intros v s Hs Hd. unfold eval_variant.
  destruct (Nat.ltb 1 (length (filter is_clause (v_items v))) &&
            negb match v_sj v with Some _ => Nat.eqb (length (filter is_clause (v_items v))) 2 | None => false end &&
            existsb (clause_empty dyn St T D) (v_items v)); auto.
  apply (from_P I shuffle swap_oracle dyn St T D pinv pinv_tick); auto. intros e s1 H1. apply pinv_heads; auto.
Qed.
End Iter.

Variable arities : list (rel * nat).
Variable P : list rule.
Hypothesis Hnoagg : no_agg P = true.

Section OneScc.
Variable sc : pscc.
Hypothesis Hok : scc_ok arities P sc = true.
Let dyn := s_dyn sc.
Variable B : rel -> list (vtuple V).

Definition cov (T D : rel -> list nat) (R : rel -> list (vtuple V)) : Prop :=
  forall r i, is_dyn dyn r = true -> i < length (R r) -> In i (T r) \/ In i (D r).

Lemma iteration_padd : forall St T D R tk, keys_ok islat R -> cov T D R -> padd B R ->
  let s := scc_iteration I islat jm shuffle swap_oracle dyn St T D sc R tk in
  keys_ok islat (i_rows s) /\ cov (merge T D) (i_new s) (i_rows s) /\ padd B (i_rows s).
Proof.
  intros St T D R tk HK Hcov Hp s.
  assert (H0 : pinv dyn R B {| i_rows := R; i_new := fun _ => []; i_changed := false; i_tick := tk |}).
  { split; [|exact Hp]. constructor; cbn [i_rows i_new i_changed]; auto. intros r i []. }
  assert (Hgen : forall vars s, incl vars (s_vars sc) -> pinv dyn R B s ->
            pinv dyn R B (fold_left (eval_variant I islat jm shuffle swap_oracle dyn St T D) vars s)).
  { induction vars as [|v vars IH]; intros s0 Hincl Hs; cbn [fold_left]; auto.
    apply IH; [intros x Hx; apply Hincl; right; exact Hx|].
    apply (pinv_variant dyn St T D R Hcov B); auto. apply (heads_dyn arities P Hnoagg sc Hok). apply Hincl. left. reflexivity. }
  destruct (Hgen (s_vars sc) _ (incl_refl _) H0) as [Hk Hp']. fold (scc_iteration I islat jm shuffle swap_oracle dyn St T D sc R tk) in Hk, Hp'. fold s in Hk, Hp'.
  split; [exact (ki_key _ _ _ _ Hk)|]. split; [|exact Hp'].
  intros r i Hr Hi. unfold merge. rewrite nunion_In. destruct (ki_cov _ _ _ _ Hk r i Hr Hi) as [H|H]; [left; apply Hcov; auto | right; exact H].
Qed.

(* every state reached after any number of evaluations of the rules of the SCC *)
Lemma reach_padd : forall St T D R tk R', loop_reach I islat jm shuffle swap_oracle sc St T D R tk R' ->
  keys_ok islat R -> cov T D R -> padd B R -> padd B R'.
Proof.
  intros St T D R tk R' H. induction H as [T D R tk|T D R tk R' H IH]; intros HK Hcov Hp; [exact Hp|].
  destruct (iteration_padd St T D R tk HK Hcov Hp) as [K1 [K2 K3]]. apply IH; auto.
Qed.

Lemma scc_loop_reach : forall fuel St T D R tk Tf Rf tkf,
  scc_loop I islat jm shuffle swap_oracle fuel sc St T D R tk = Some (Tf, Rf, tkf) ->
  loop_reach I islat jm shuffle swap_oracle sc St T D R tk Rf.
Proof.
  induction fuel as [|fuel IH]; intros St T D R tk Tf Rf tkf Hrun; [discriminate|].
  cbn [scc_loop] in Hrun. apply lr_next.
  destruct (i_changed (scc_iteration I islat jm shuffle swap_oracle (s_dyn sc) St T D sc R tk)).
  - eapply IH; eauto.
  - injection Hrun as _ <- _. apply lr_here.
Qed.

Lemma run_scc_reach : forall fuel (st st' : @lstate V), run_scc I islat jm shuffle swap_oracle fuel sc st = Some st' ->
  loop_reach I islat jm shuffle swap_oracle sc (l_stored st) (fun _ => []) (fun r => if is_dyn dyn r then l_stored st r else [])
             (l_rows st) (l_tick st) (l_rows st').
Proof.
  intros fuel st st' Hrun. unfold run_scc in Hrun. fold dyn in Hrun. destruct (s_loop sc).
  - destruct (scc_loop I islat jm shuffle swap_oracle fuel sc (l_stored st) (fun _ => [])
               (fun r => if is_dyn dyn r then l_stored st r else []) (l_rows st) (l_tick st)) as [[[Tf Rf] tkf]|] eqn:El; [|discriminate].
    injection Hrun as <-. cbn [l_rows]. eapply scc_loop_reach; eauto.
  - injection Hrun as <-. cbn [l_rows]. apply lr_next. apply lr_here.
Qed.

Lemma start_cov : forall (st : @lstate V), (forall r i, i < length (l_rows st r) -> In i (l_stored st r)) ->
  cov (fun _ => []) (fun r => if is_dyn dyn r then l_stored st r else []) (l_rows st).
Proof. intros st Hst r i Hr Hi. right. rewrite Hr. apply Hst. exact Hi. Qed.

Lemma run_scc_padd : forall fuel (st st' : @lstate V), keys_ok islat (l_rows st) ->
  (forall r i, i < length (l_rows st r) -> In i (l_stored st r)) -> padd B (l_rows st) ->
  run_scc I islat jm shuffle swap_oracle fuel sc st = Some st' -> padd B (l_rows st').
Proof.
  intros fuel st st' HK Hst Hp Hrun. eapply reach_padd; [eapply run_scc_reach; eauto | exact HK | apply start_cov; exact Hst | exact Hp].
Qed.
End OneScc.

Variable pl : plan.
Hypothesis Hval : validate arities P pl = true.

Definition stored_all (st : @lstate V) : Prop := forall r i, i < length (l_rows st r) -> In i (l_stored st r).

Lemma run_sccs_padd : forall B fuel todo done rest st st', pl = done ++ todo ++ rest ->
  keys_ok islat (l_rows st) -> stored_all st -> padd B (l_rows st) ->
  run_sccs I islat jm shuffle swap_oracle fuel todo st = Some st' ->
  keys_ok islat (l_rows st') /\ stored_all st' /\ padd B (l_rows st').
Proof.
  intros B fuel. induction todo as [|sc todo IH]; intros done rest st st' Hpl HK Hst Hp Hrun.
  - cbn [run_sccs] in Hrun. injection Hrun as <-. auto.
  - cbn [run_sccs] in Hrun. destruct (run_scc I islat jm shuffle swap_oracle fuel sc st) as [st1|] eqn:H1; [|discriminate].
    assert (Hn : nth_error pl (length done) = Some sc) by (rewrite Hpl, nth_error_app2, Nat.sub_diag; [reflexivity | lia]).
    pose proof (SemiNaive.val_scc_ok arities P pl Hval _ sc Hn) as Hok.
    destruct (run_scc_keys I Heq islat jm shuffle swap_oracle arities P Hnoagg sc Hok fuel st st1 HK Hst H1) as [K1 K2].
    apply (IH (done ++ [sc]) rest st1 st'); [rewrite <- app_assoc; exact Hpl | exact K1 | exact K2 | | exact Hrun].
    exact (run_scc_padd sc Hok B fuel st st1 HK Hst Hp H1).
Qed.

Lemma update_indices_stored : forall (R : rel -> list (vtuple V)), stored_all (update_indices R).
Proof. intros R r i Hi. cbn [update_indices l_rows l_stored] in *. apply in_seq. lia. Qed.

Theorem run_plan_padd : forall fuel Rin st, keys_ok islat Rin ->
  run_plan I islat jm shuffle swap_oracle fuel pl Rin = Some st -> padd Rin (l_rows st).
Proof.
  intros fuel Rin st HK Hrun. unfold run_plan in Hrun.
  destruct (run_sccs_padd Rin fuel pl [] [] (update_indices Rin) st (eq_sym (app_nil_r pl)) HK (update_indices_stored Rin) (padd_refl Rin) Hrun) as [_ [_ H]]. exact H.
Qed.
End Plain.
