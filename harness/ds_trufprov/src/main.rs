//! ds_trufprov: drives the real `trrel_uf` provider of /repo/byods/ascent-byods-rels (binary form
//! `TrRelIndCommon<u32>` and ternary form `BinRelToTernaryWrapper<.., TrRelIndCommon<u32>>`) through
//! the same trait calls the generated code makes, one history per stdin line, and prints every view
//! of the delta and the total version after every stratum start and after every merge.
//!
//! Usage: ds_trufprov <suite>      suite = bin | ter | ter0   (ter0: only indices [0],[0,1,2] -> no reverse maps)
//! Line:  <D> <K> op*              D = element domain 0..D, K = key domain 0..K (ignored by bin)
//!   s            stratum start:  delta = take(stored); total = default; new = default; init(new, delta, total); read
//!   i [k] x y    new.insert_if_not_present((k,)x,y)                     -> "i0" | "i1"
//!   h [k] x y    head update of generated code: total.contains_key, delta.contains_key, then insert into new
//!                                                                       -> "hT" | "hD" | "h0" | "h1"
//!   m            merge_delta_to_total_new_to_delta(new, delta, total); read
//!   e            stratum end:    stored = total
//! Result: one JSON array per line; a panic ends the history with "panic@<op index>:<op>".
use std::io::{self, BufRead, Write};
use std::panic::{self, AssertUnwindSafe};

use ascent::internal::{
   RelFullIndexRead, RelFullIndexWrite, RelIndexMerge, RelIndexRead, RelIndexReadAll, ToRelIndex,
};
use ascent_byods_rels::trrel_uf as prov;

type E = u32;

type BinCommon = prov::rel_ind_common!(tr, (E, E), [[], [0], [1], [0, 1]], ser, ());
type BinFull = prov::rel_full_ind!(tr, (E, E), [[], [0], [1], [0, 1]], ser, (), (E, E), ());
type BinNone = prov::rel_ind!(tr, (E, E), [[], [0], [1], [0, 1]], ser, (), [], (), (E, E));
type Bin0 = prov::rel_ind!(tr, (E, E), [[], [0], [1], [0, 1]], ser, (), [0], (E,), (E,));
type Bin1 = prov::rel_ind!(tr, (E, E), [[], [0], [1], [0, 1]], ser, (), [1], (E,), (E,));

type TerCommon = prov::rel_ind_common!(tr, (E, E, E), [[], [0], [1], [2], [0, 1], [0, 2], [1, 2], [0, 1, 2]], ser, ());
type Ter0Common = prov::rel_ind_common!(tr, (E, E, E), [[], [0], [0, 1], [0, 2], [0, 1, 2]], ser, ());
type TerFull = prov::rel_full_ind!(tr, (E, E, E), [[0, 1, 2]], ser, (), (E, E, E), ());
type TerNone = prov::rel_ind!(tr, (E, E, E), [[0, 1, 2]], ser, (), [], (), (E, E, E));
type TerI0 = prov::rel_ind!(tr, (E, E, E), [[0, 1, 2]], ser, (), [0], (E,), (E, E));
type TerI1 = prov::rel_ind!(tr, (E, E, E), [[0, 1, 2]], ser, (), [1], (E,), (E, E));
type TerI2 = prov::rel_ind!(tr, (E, E, E), [[0, 1, 2]], ser, (), [2], (E,), (E, E));
type TerI01 = prov::rel_ind!(tr, (E, E, E), [[0, 1, 2]], ser, (), [0, 1], (E, E), (E,));
type TerI02 = prov::rel_ind!(tr, (E, E, E), [[0, 1, 2]], ser, (), [0, 2], (E, E), (E,));
type TerI12 = prov::rel_ind!(tr, (E, E, E), [[0, 1, 2]], ser, (), [1, 2], (E, E), (E,));

fn fmt_rows(rows: &mut Vec<Vec<E>>) -> String {
   rows.sort();
   let parts: Vec<String> =
      rows.iter().map(|r| format!("[{}]", r.iter().map(|v| v.to_string()).collect::<Vec<_>>().join(","))).collect();
   format!("[{}]", parts.join(","))
}

struct View {
   name: &'static str,
   tuples: Vec<Vec<E>>,
   keys: Vec<Vec<E>>,
   empty: Option<bool>,
   le_panics: Option<bool>,
}
impl View {
   fn new(name: &'static str) -> Self { View { name, tuples: vec![], keys: vec![], empty: None, le_panics: None } }
   fn render(mut self) -> String {
      let e = match self.empty {
         None => "null".to_string(),
         Some(b) => b.to_string(),
      };
      let lp = match self.le_panics {
         None => "null".to_string(),
         Some(b) => b.to_string(),
      };
      format!(
         "\"{}\":{{\"t\":{},\"k\":{},\"e\":{},\"lp\":{}}}",
         self.name,
         fmt_rows(&mut self.tuples),
         fmt_rows(&mut self.keys),
         e,
         lp
      )
   }
}

// ------------------------------------------------------------------ binary

fn read_bin(c: &BinCommon, d: E) -> String {
   let mut out: Vec<String> = vec![];
   {
      let to = BinNone::default();
      let ix = to.to_rel_index(c);
      let mut v = View::new("none_get");
      if let Some(it) = ix.index_get(&()) {
         v.keys.push(vec![]);
         for (x, y) in it {
            v.tuples.push(vec![*x, *y]);
         }
      }
      let _ = ix.len_estimate();
      out.push(v.render());
      let mut v = View::new("none_all");
      for ((), it) in ix.iter_all() {
         v.keys.push(vec![]);
         for (x, y) in it {
            v.tuples.push(vec![*x, *y]);
         }
      }
      out.push(v.render());
   }
   {
      let to = Bin0::default();
      let ix = to.to_rel_index(c);
      let mut v = View::new("i0_get");
      for x in 0..d {
         if let Some(it) = ix.index_get(&(x,)) {
            v.keys.push(vec![x]);
            for (y,) in it {
               v.tuples.push(vec![x, *y]);
            }
         }
      }
      v.empty = Some(ix.is_empty());
      let _ = ix.len_estimate();
      out.push(v.render());
      let mut v = View::new("i0_all");
      for ((x,), it) in ix.iter_all() {
         v.keys.push(vec![*x]);
         for (y,) in it {
            v.tuples.push(vec![*x, *y]);
         }
      }
      out.push(v.render());
   }
   {
      let to = Bin1::default();
      let ix = to.to_rel_index(c);
      let mut v = View::new("i1_get");
      for y in 0..d {
         if let Some(it) = ix.index_get(&(y,)) {
            v.keys.push(vec![y]);
            for (x,) in it {
               v.tuples.push(vec![*x, y]);
            }
         }
      }
      v.empty = Some(ix.is_empty());
      let _ = ix.len_estimate();
      out.push(v.render());
      let mut v = View::new("i1_all");
      for ((y,), it) in ix.iter_all() {
         v.keys.push(vec![*y]);
         for (x,) in it {
            v.tuples.push(vec![*x, *y]);
         }
      }
      out.push(v.render());
   }
   {
      let to = BinFull::default();
      let ix = to.to_rel_index(c);
      let mut v = View::new("full_get");
      let mut w = View::new("contains");
      for x in 0..d {
         for y in 0..d {
            if let Some(it) = ix.index_get(&(x, y)) {
               v.keys.push(vec![x, y]);
               for () in it {
                  v.tuples.push(vec![x, y]);
               }
            }
            if ix.contains_key(&(x, y)) {
               w.tuples.push(vec![x, y]);
            }
         }
      }
      v.empty = Some(RelIndexRead::is_empty(&ix));
      let _ = ix.len_estimate();
      out.push(v.render());
      out.push(w.render());
      let mut v = View::new("full_all");
      for ((x, y), it) in ix.iter_all() {
         v.keys.push(vec![*x, *y]);
         for () in it {
            v.tuples.push(vec![*x, *y]);
         }
      }
      out.push(v.render());
   }
   format!("{{{}}}", out.join(","))
}

struct BinState {
   stored: BinCommon,
   new: BinCommon,
   delta: BinCommon,
   total: BinCommon,
}

fn bin_op(st: &mut BinState, op: &[&str], d: E) -> String {
   match op[0] {
      "s" => {
         st.delta = std::mem::take(&mut st.stored);
         st.total = Default::default();
         st.new = Default::default();
         RelIndexMerge::init(&mut st.new, &mut st.delta, &mut st.total);
         format!("{{\"d\":{},\"t\":{}}}", read_bin(&st.delta, d), read_bin(&st.total, d))
      },
      "e" => {
         st.stored = std::mem::take(&mut st.total);
         "\"e\"".to_string()
      },
      "m" => {
         RelIndexMerge::merge_delta_to_total_new_to_delta(&mut st.new, &mut st.delta, &mut st.total);
         // the per-index merge calls of the generated code (write views; no-ops for this provider)
         {
            let (mut a, mut b, mut c) = (BinFull::default(), BinFull::default(), BinFull::default());
            RelIndexMerge::merge_delta_to_total_new_to_delta(
               &mut a.to_rel_index_write(&mut st.new),
               &mut b.to_rel_index_write(&mut st.delta),
               &mut c.to_rel_index_write(&mut st.total),
            );
         }
         format!("{{\"d\":{},\"t\":{}}}", read_bin(&st.delta, d), read_bin(&st.total, d))
      },
      "i" => {
         let (x, y): (E, E) = (op[1].parse().unwrap(), op[2].parse().unwrap());
         let mut to = BinFull::default();
         let r = to.to_rel_index_write(&mut st.new).insert_if_not_present(&(x, y), ());
         format!("\"i{}\"", r as u8)
      },
      "h" => {
         let (x, y): (E, E) = (op[1].parse().unwrap(), op[2].parse().unwrap());
         let mut to = BinFull::default();
         if to.to_rel_index(&st.total).contains_key(&(x, y)) {
            return "\"hT\"".to_string();
         }
         if to.to_rel_index(&st.delta).contains_key(&(x, y)) {
            return "\"hD\"".to_string();
         }
         let r = to.to_rel_index_write(&mut st.new).insert_if_not_present(&(x, y), ());
         format!("\"h{}\"", r as u8)
      },
      _ => panic!("harness: unknown op"),
   }
}

// ------------------------------------------------------------------ ternary

macro_rules! ter_impl {
   ($read: ident, $state: ident, $opfn: ident, $common: ty, $rev: expr) => {
      fn $read(c: &$common, d: E, k: E) -> String {
         let mut out: Vec<String> = vec![];
         {
            let to = TerNone::default();
            let ix = to.to_rel_index(c);
            let mut v = View::new("none_get");
            if let Some(it) = ix.index_get(&()) {
               v.keys.push(vec![]);
               for (a, x, y) in it {
                  v.tuples.push(vec![*a, *x, *y]);
               }
            }
            let _ = ix.len_estimate();
            out.push(v.render());
            let mut v = View::new("none_all");
            for ((), it) in ix.iter_all() {
               v.keys.push(vec![]);
               for (a, x, y) in it {
                  v.tuples.push(vec![*a, *x, *y]);
               }
            }
            out.push(v.render());
         }
         {
            let to = TerI0::default();
            let ix = to.to_rel_index(c);
            let mut v = View::new("i0_get");
            for a in 0..k {
               if let Some(it) = ix.index_get(&(a,)) {
                  v.keys.push(vec![a]);
                  for (x, y) in it {
                     v.tuples.push(vec![a, *x, *y]);
                  }
               }
            }
            v.empty = Some(ix.is_empty());
            let _ = ix.len_estimate();
            out.push(v.render());
            let mut v = View::new("i0_all");
            for ((a,), it) in ix.iter_all() {
               v.keys.push(vec![*a]);
               for (x, y) in it {
                  v.tuples.push(vec![*a, *x, *y]);
               }
            }
            out.push(v.render());
         }
         {
            let to = TerI01::default();
            let ix = to.to_rel_index(c);
            let mut v = View::new("i01_get");
            for a in 0..k {
               for x in 0..d {
                  if let Some(it) = ix.index_get(&(a, x)) {
                     v.keys.push(vec![a, x]);
                     for (y,) in it {
                        v.tuples.push(vec![a, x, *y]);
                     }
                  }
               }
            }
            v.empty = Some(ix.is_empty());
            let _ = ix.len_estimate();
            out.push(v.render());
            let mut v = View::new("i01_all");
            for ((a, x), it) in ix.iter_all() {
               v.keys.push(vec![*a, *x]);
               for (y,) in it {
                  v.tuples.push(vec![*a, *x, *y]);
               }
            }
            out.push(v.render());
         }
         {
            let to = TerI02::default();
            let ix = to.to_rel_index(c);
            let mut v = View::new("i02_get");
            for a in 0..k {
               for y in 0..d {
                  if let Some(it) = ix.index_get(&(a, y)) {
                     v.keys.push(vec![a, y]);
                     for (x,) in it {
                        v.tuples.push(vec![a, *x, y]);
                     }
                  }
               }
            }
            v.empty = Some(ix.is_empty());
            let _ = ix.len_estimate();
            out.push(v.render());
            let mut v = View::new("i02_all");
            for ((a, y), it) in ix.iter_all() {
               v.keys.push(vec![*a, *y]);
               for (x,) in it {
                  v.tuples.push(vec![*a, *x, *y]);
               }
            }
            out.push(v.render());
         }
         if $rev {
            {
               let to = TerI1::default();
               let ix = to.to_rel_index(c);
               let mut v = View::new("i1_get");
               for x in 0..d {
                  if let Some(it) = ix.index_get(&(x,)) {
                     v.keys.push(vec![x]);
                     for (a, y) in it {
                        v.tuples.push(vec![*a, x, *y]);
                     }
                  }
               }
               v.empty = Some(ix.is_empty());
               let _ = ix.len_estimate();
               out.push(v.render());
               let mut v = View::new("i1_all");
               for ((x,), it) in ix.iter_all() {
                  v.keys.push(vec![*x]);
                  for (a, y) in it {
                     v.tuples.push(vec![*a, *x, *y]);
                  }
               }
               out.push(v.render());
            }
            {
               let to = TerI2::default();
               let ix = to.to_rel_index(c);
               let mut v = View::new("i2_get");
               for y in 0..d {
                  if let Some(it) = ix.index_get(&(y,)) {
                     v.keys.push(vec![y]);
                     for (a, x) in it {
                        v.tuples.push(vec![*a, *x, y]);
                     }
                  }
               }
               v.empty = Some(ix.is_empty());
               let _ = ix.len_estimate();
               out.push(v.render());
               let mut v = View::new("i2_all");
               for ((y,), it) in ix.iter_all() {
                  v.keys.push(vec![*y]);
                  for (a, x) in it {
                     v.tuples.push(vec![*a, *x, *y]);
                  }
               }
               out.push(v.render());
            }
            {
               let to = TerI12::default();
               let ix = to.to_rel_index(c);
               let mut v = View::new("i12_get");
               for x in 0..d {
                  for y in 0..d {
                     if let Some(it) = ix.index_get(&(x, y)) {
                        v.keys.push(vec![x, y]);
                        for (a,) in it {
                           v.tuples.push(vec![*a, x, y]);
                        }
                     }
                  }
               }
               // len_estimate of this view divides by (map.len() as f32).sqrt() as usize: observed separately
               v.le_panics = Some(panic::catch_unwind(AssertUnwindSafe(|| ix.len_estimate())).is_err());
               out.push(v.render());
               let mut v = View::new("i12_all");
               for ((x, y), it) in ix.iter_all() {
                  v.keys.push(vec![*x, *y]);
                  for (a,) in it {
                     v.tuples.push(vec![*a, *x, *y]);
                  }
               }
               out.push(v.render());
            }
         }
         {
            let to = TerFull::default();
            let ix = to.to_rel_index(c);
            let mut v = View::new("full_get");
            let mut w = View::new("contains");
            for a in 0..k {
               for x in 0..d {
                  for y in 0..d {
                     if let Some(it) = ix.index_get(&(a, x, y)) {
                        v.keys.push(vec![a, x, y]);
                        for () in it {
                           v.tuples.push(vec![a, x, y]);
                        }
                     }
                     if ix.contains_key(&(a, x, y)) {
                        w.tuples.push(vec![a, x, y]);
                     }
                  }
               }
            }
            v.empty = Some(RelIndexRead::is_empty(&ix));
            let _ = ix.len_estimate();
            out.push(v.render());
            out.push(w.render());
            let mut v = View::new("full_all");
            for ((a, x, y), it) in ix.iter_all() {
               v.keys.push(vec![*a, *x, *y]);
               for () in it {
                  v.tuples.push(vec![*a, *x, *y]);
               }
            }
            out.push(v.render());
         }
         format!("{{{}}}", out.join(","))
      }

      struct $state {
         stored: $common,
         new: $common,
         delta: $common,
         total: $common,
      }

      fn $opfn(st: &mut $state, op: &[&str], d: E, k: E) -> String {
         match op[0] {
            "s" => {
               st.delta = std::mem::take(&mut st.stored);
               st.total = Default::default();
               st.new = Default::default();
               RelIndexMerge::init(&mut st.new, &mut st.delta, &mut st.total);
               format!("{{\"d\":{},\"t\":{}}}", $read(&st.delta, d, k), $read(&st.total, d, k))
            },
            "e" => {
               st.stored = std::mem::take(&mut st.total);
               "\"e\"".to_string()
            },
            "m" => {
               RelIndexMerge::merge_delta_to_total_new_to_delta(&mut st.new, &mut st.delta, &mut st.total);
               {
                  let (mut a, mut b, mut c) = (TerFull::default(), TerFull::default(), TerFull::default());
                  RelIndexMerge::merge_delta_to_total_new_to_delta(
                     &mut a.to_rel_index_write(&mut st.new),
                     &mut b.to_rel_index_write(&mut st.delta),
                     &mut c.to_rel_index_write(&mut st.total),
                  );
               }
               format!("{{\"d\":{},\"t\":{}}}", $read(&st.delta, d, k), $read(&st.total, d, k))
            },
            "i" => {
               let (a, x, y): (E, E, E) = (op[1].parse().unwrap(), op[2].parse().unwrap(), op[3].parse().unwrap());
               let mut to = TerFull::default();
               let r = to.to_rel_index_write(&mut st.new).insert_if_not_present(&(a, x, y), ());
               format!("\"i{}\"", r as u8)
            },
            "h" => {
               let (a, x, y): (E, E, E) = (op[1].parse().unwrap(), op[2].parse().unwrap(), op[3].parse().unwrap());
               let mut to = TerFull::default();
               if to.to_rel_index(&st.total).contains_key(&(a, x, y)) {
                  return "\"hT\"".to_string();
               }
               if to.to_rel_index(&st.delta).contains_key(&(a, x, y)) {
                  return "\"hD\"".to_string();
               }
               let r = to.to_rel_index_write(&mut st.new).insert_if_not_present(&(a, x, y), ());
               format!("\"h{}\"", r as u8)
            },
            _ => panic!("harness: unknown op"),
         }
      }
   };
}

ter_impl!(read_ter, TerState, ter_op, TerCommon, true);
ter_impl!(read_ter0, Ter0State, ter0_op, Ter0Common, false);

// ------------------------------------------------------------------ driver

fn split_ops<'a>(toks: &[&'a str], arity: usize) -> Vec<Vec<&'a str>> {
   let mut ops = vec![];
   let mut i = 0;
   while i < toks.len() {
      let n = match toks[i] {
         "i" | "h" => 1 + arity,
         _ => 1,
      };
      ops.push(toks[i..i + n].to_vec());
      i += n;
   }
   ops
}

fn run_line(suite: &str, toks: &[&str]) -> String {
   let d: E = toks[0].parse().unwrap();
   let k: E = toks[1].parse().unwrap();
   let arity = if suite == "bin" { 2 } else { 3 };
   let ops = split_ops(&toks[2..], arity);
   let mut res: Vec<String> = vec![];
   macro_rules! drive {
      ($st: expr, $f: expr) => {{
         let mut st = $st;
         for (n, op) in ops.iter().enumerate() {
            let r = panic::catch_unwind(AssertUnwindSafe(|| $f(&mut st, op)));
            match r {
               Ok(s) => res.push(s),
               Err(_) => {
                  res.push(format!("\"panic@{}:{}\"", n, op[0]));
                  // the state may be torn after a panic: leak it instead of running destructors on it
                  std::mem::forget(st);
                  break;
               },
            }
         }
      }};
   }
   match suite {
      "bin" => drive!(
         BinState { stored: Default::default(), new: Default::default(), delta: Default::default(), total: Default::default() },
         |st: &mut BinState, op: &Vec<&str>| bin_op(st, op, d)
      ),
      "ter" => drive!(
         TerState { stored: Default::default(), new: Default::default(), delta: Default::default(), total: Default::default() },
         |st: &mut TerState, op: &Vec<&str>| ter_op(st, op, d, k)
      ),
      "ter0" => drive!(
         Ter0State { stored: Default::default(), new: Default::default(), delta: Default::default(), total: Default::default() },
         |st: &mut Ter0State, op: &Vec<&str>| ter0_op(st, op, d, k)
      ),
      _ => panic!("unknown suite"),
   }
   format!("[{}]", res.join(","))
}

fn main() {
   let suite = std::env::args().nth(1).expect("suite");
   panic::set_hook(Box::new(|_| {}));
   let stdin = io::stdin();
   let stdout = io::stdout();
   let mut out = io::BufWriter::new(stdout.lock());
   for line in stdin.lock().lines() {
      let line = line.unwrap();
      let line = line.trim();
      if line.is_empty() {
         continue;
      }
      let toks: Vec<&str> = line.split_whitespace().collect();
      writeln!(out, "{}", run_line(&suite, &toks)).unwrap();
   }
}
