//! ds_lat (C16): runs the real `ascent_base` lattice operations on explicit arguments.
//!
//! stdin, one case per line:
//!   2 <tag> <a> <b>       pair row
//!   3 <tag> <a> <b> <c>   triple row (associativity / transitivity material)
//!   O <tag> <a> <b>       the consumers of `Ord` (types that implement it; `-` otherwise), see `ord_ops`
//!   B <tag>               bottom / top of a BoundedLattice (or `none`)
//!   T                     the tag table: tag=type_name|...
//! stdout: one line per case, fields separated by " ; " (see `pair`, `triple`), `panic` if the code panicked.
//!
//! Value encoding (prefix, whitespace separated, the same on input and output):
//!   integers: decimal      bool: t | f      (): u      Option: N | S <v>
//!   Rc / Arc / Box / Reverse / Dual / OrdLattice / Product: the inner value
//!   tuples and arrays: the components in order
//!   Set: <n> <x1> .. <xn> (in the set's iteration order on output)      BoundedSet: T | B <n> <x1> .. <xn>
//!   ConstPropagation: bot | top | c <v>
use std::cmp::{Ordering, Reverse};
use std::collections::BTreeSet;
use std::io::{self, BufRead, Write};
use std::panic;
use std::rc::Rc;
use std::sync::Arc;

use ascent_base::lattice::bounded_set::BoundedSet;
use ascent_base::lattice::constant_propagation::ConstPropagation;
use ascent_base::lattice::ord_lattice::OrdLattice;
use ascent_base::lattice::set::Set;
use ascent_base::lattice::{BoundedLattice, Dual, Product};
use ascent_base::Lattice;

#[derive(Clone)]
struct Toks<'a> {
   t: &'a [&'a str],
   pos: usize,
}
impl<'a> Toks<'a> {
   fn next(&mut self) -> &'a str {
      let r = self.t[self.pos];
      self.pos += 1;
      r
   }
   fn done(&self) -> bool { self.pos == self.t.len() }
}

trait Val: Sized {
   fn parse(t: &mut Toks) -> Self;
   fn show(&self, out: &mut Vec<String>);
}

macro_rules! int_val {
   ($($t:ty),*) => {$(
      impl Val for $t {
         fn parse(t: &mut Toks) -> Self { t.next().parse().unwrap() }
         fn show(&self, out: &mut Vec<String>) { out.push(self.to_string()) }
      }
   )*};
}
int_val!(i8, u8, i16, u16, i32, u32, i64, u64, i128, u128, isize, usize);

impl Val for bool {
   fn parse(t: &mut Toks) -> Self {
      match t.next() {
         "t" => true,
         "f" => false,
         x => panic!("bool {}", x),
      }
   }
   fn show(&self, out: &mut Vec<String>) { out.push(if *self { "t" } else { "f" }.into()) }
}
impl Val for () {
   fn parse(t: &mut Toks) -> Self { assert_eq!(t.next(), "u") }
   fn show(&self, out: &mut Vec<String>) { out.push("u".into()) }
}
impl<T: Val> Val for Option<T> {
   fn parse(t: &mut Toks) -> Self {
      match t.next() {
         "N" => None,
         "S" => Some(T::parse(t)),
         x => panic!("option {}", x),
      }
   }
   fn show(&self, out: &mut Vec<String>) {
      match self {
         None => out.push("N".into()),
         Some(x) => {
            out.push("S".into());
            x.show(out)
         },
      }
   }
}
macro_rules! wrapper_val {
   (deref $w:ident, $mk:expr) => {
      impl<T: Val> Val for $w<T> {
         fn parse(t: &mut Toks) -> Self { ($mk)(T::parse(t)) }
         fn show(&self, out: &mut Vec<String>) { (**self).show(out) }
      }
   };
   (field $w:ident, $mk:expr) => {
      impl<T: Val> Val for $w<T> {
         fn parse(t: &mut Toks) -> Self { ($mk)(T::parse(t)) }
         fn show(&self, out: &mut Vec<String>) { self.0.show(out) }
      }
   };
}
wrapper_val!(deref Rc, Rc::new);
wrapper_val!(deref Arc, Arc::new);
wrapper_val!(deref Box, Box::new);
wrapper_val!(field Reverse, Reverse);
wrapper_val!(field Dual, Dual);
wrapper_val!(field OrdLattice, OrdLattice);
wrapper_val!(field Product, Product);

macro_rules! tuple_val {
   ($($T:ident $i:tt),*) => {
      impl<$($T: Val),*> Val for ($($T,)*) {
         fn parse(t: &mut Toks) -> Self { ($($T::parse(t),)*) }
         fn show(&self, out: &mut Vec<String>) { $(self.$i.show(out);)* }
      }
   };
}
tuple_val!(A 0);
tuple_val!(A 0, B 1);
tuple_val!(A 0, B 1, C 2);
tuple_val!(A 0, B 1, C 2, D 3, E 4, F 5, G 6, H 7, I 8, J 9, K 10);

impl<T: Val, const N: usize> Val for [T; N] {
   fn parse(t: &mut Toks) -> Self { std::array::from_fn(|_| T::parse(t)) }
   fn show(&self, out: &mut Vec<String>) {
      for x in self.iter() {
         x.show(out)
      }
   }
}

impl<T: Val + Ord + std::hash::Hash + Eq> Val for Set<T> {
   fn parse(t: &mut Toks) -> Self {
      let n: usize = t.next().parse().unwrap();
      let mut s = BTreeSet::new();
      for _ in 0..n {
         s.insert(T::parse(t));
      }
      assert_eq!(s.len(), n, "duplicate set element in the case line");
      Set(s)
   }
   fn show(&self, out: &mut Vec<String>) {
      out.push(self.0.len().to_string());
      for x in self.0.iter() {
         x.show(out)
      }
   }
}

impl<const N: usize> Val for BoundedSet<N, i32> {
   fn parse(t: &mut Toks) -> Self {
      match t.next() {
         "T" => BoundedSet::TOP,
         "B" => {
            let s = Set::<i32>::parse(t);
            let n = s.len();
            let r = BoundedSet::from_set(s);
            // the generator only sends sets within the bound
            assert_eq!(r.count(), Some(n), "set above BOUND in the case line");
            r
         },
         x => panic!("bset {}", x),
      }
   }
   fn show(&self, out: &mut Vec<String>) {
      // the field is private: read the elements off the derived Debug output, cross-checked with count()
      let d = format!("{:?}", self);
      if self.is_top() {
         assert!(d.contains("None"), "{}", d);
         out.push("T".into());
         return;
      }
      let inner = &d[d.find('{').unwrap() + 1..d.rfind('}').unwrap()];
      let xs: Vec<i32> = inner.split(',').map(|s| s.trim()).filter(|s| !s.is_empty()).map(|s| s.parse().unwrap()).collect();
      assert_eq!(Some(xs.len()), self.count(), "{}", d);
      for x in &xs {
         assert!(self.contains(x));
      }
      out.push("B".into());
      out.push(xs.len().to_string());
      for x in xs {
         out.push(x.to_string())
      }
   }
}

impl<T: Val> Val for ConstPropagation<T> {
   fn parse(t: &mut Toks) -> Self {
      match t.next() {
         "bot" => ConstPropagation::Bottom,
         "top" => ConstPropagation::Top,
         "c" => ConstPropagation::Constant(T::parse(t)),
         x => panic!("cp {}", x),
      }
   }
   fn show(&self, out: &mut Vec<String>) {
      match self {
         ConstPropagation::Bottom => out.push("bot".into()),
         ConstPropagation::Top => out.push("top".into()),
         ConstPropagation::Constant(x) => {
            out.push("c".into());
            x.show(out)
         },
      }
   }
}

fn sh<T: Val>(x: &T) -> String {
   let mut v = Vec::new();
   x.show(&mut v);
   v.join(" ")
}
fn ord_s(o: Option<Ordering>) -> &'static str {
   match o {
      Some(Ordering::Less) => "L",
      Some(Ordering::Equal) => "E",
      Some(Ordering::Greater) => "G",
      None => "N",
   }
}
fn b01(b: bool) -> &'static str { if b { "1" } else { "0" } }

type CmpF<T> = Option<fn(&T, &T) -> Ordering>;
type BndF<T> = Option<fn() -> (T, T)>;

/// pair row:
///  j ; m ; jm value ; jm flag ; mm value ; mm flag ; jm value (shared receiver/argument) ; its flag ;
///  mm value (shared) ; its flag ; partial_cmp ; == ; <= < >= > ; cmp (or -) ; a.join(a.meet(b)) ; a.meet(a.join(b)) ; a ; b
fn pair<T: Lattice + Clone + PartialEq + Val>(toks: &mut Toks, cmpf: CmpF<T>) -> String {
   let start = toks.clone();
   let a = T::parse(toks);
   let b = T::parse(toks);
   assert!(toks.done(), "trailing tokens");
   // freshly built (uniquely owned) arguments for the in-place variants
   let fresh = || {
      let mut t = start.clone();
      let a = T::parse(&mut t);
      let b = T::parse(&mut t);
      (a, b)
   };
   let mut f: Vec<String> = Vec::new();
   f.push(sh(&a.clone().join(b.clone())));
   f.push(sh(&a.clone().meet(b.clone())));
   {
      let (mut x, y) = fresh();
      let fl = x.join_mut(y);
      f.push(sh(&x));
      f.push(b01(fl).into());
   }
   {
      let (mut x, y) = fresh();
      let fl = x.meet_mut(y);
      f.push(sh(&x));
      f.push(b01(fl).into());
   }
   {
      // receiver and argument share their allocation with `a` / `b` (matters for Rc / Arc)
      let mut x = a.clone();
      let fl = x.join_mut(b.clone());
      f.push(sh(&x));
      f.push(b01(fl).into());
   }
   {
      let mut x = a.clone();
      let fl = x.meet_mut(b.clone());
      f.push(sh(&x));
      f.push(b01(fl).into());
   }
   f.push(ord_s(a.partial_cmp(&b)).into());
   f.push(b01(a == b).into());
   f.push(format!("{}{}{}{}", b01(a <= b), b01(a < b), b01(a >= b), b01(a > b)));
   f.push(match cmpf {
      Some(c) => ord_s(Some(c(&a, &b))).into(),
      None => "-".into(),
   });
   f.push(sh(&a.clone().join(a.clone().meet(b.clone()))));
   f.push(sh(&a.clone().meet(a.clone().join(b.clone()))));
   f.push(sh(&a));
   f.push(sh(&b));
   f.join(" ; ")
}

/// triple row: (a v b) v c ; a v (b v c) ; (a ^ b) ^ c ; a ^ (b ^ c) ; cmp(a,b) ; cmp(b,c) ; cmp(a,c)
fn triple<T: Lattice + Clone + PartialEq + Val>(toks: &mut Toks) -> String {
   let a = T::parse(toks);
   let b = T::parse(toks);
   let c = T::parse(toks);
   assert!(toks.done(), "trailing tokens");
   let f: Vec<String> = vec![
      sh(&a.clone().join(b.clone()).join(c.clone())),
      sh(&a.clone().join(b.clone().join(c.clone()))),
      sh(&a.clone().meet(b.clone()).meet(c.clone())),
      sh(&a.clone().meet(b.clone().meet(c.clone()))),
      ord_s(a.partial_cmp(&b)).into(),
      ord_s(b.partial_cmp(&c)).into(),
      ord_s(a.partial_cmp(&c)).into(),
   ];
   f.join(" ; ")
}

/// Ord row: cmp(a,b) ; cmp(b,a) ; Ord::max(a,b) ; Ord::min(a,b) ; [a,b].sort_by(Ord::cmp) as `x | y` ; [a,b].sort() as `x | y` ;
/// BTreeSet::from([a,b]) in iteration order as `x | y` or `x` ; [a,b].binary_search(b) after sort_by (found index or `!`) ;
/// std::cmp::max_by(a,b,Ord::cmp) ; a.clamp(lo, hi) for the pair sorted by cmp (asserts lo <= hi with PartialOrd)
fn ord_ops<T: Ord + Clone + Val>(toks: &mut Toks) -> String {
   let a = T::parse(toks);
   let b = T::parse(toks);
   assert!(toks.done(), "trailing tokens");
   let mut f: Vec<String> = Vec::new();
   f.push(ord_s(Some(Ord::cmp(&a, &b))).into());
   f.push(ord_s(Some(Ord::cmp(&b, &a))).into());
   f.push(sh(&Ord::max(a.clone(), b.clone())));
   f.push(sh(&Ord::min(a.clone(), b.clone())));
   let mut v = vec![a.clone(), b.clone()];
   v.sort_by(Ord::cmp);
   f.push(format!("{} | {}", sh(&v[0]), sh(&v[1])));
   let mut w = vec![a.clone(), b.clone()];
   w.sort();
   f.push(format!("{} | {}", sh(&w[0]), sh(&w[1])));
   let set: BTreeSet<T> = [a.clone(), b.clone()].into_iter().collect();
   f.push(set.iter().map(|x| sh(x)).collect::<Vec<_>>().join(" | "));
   f.push(match v.binary_search(&b) {
      Ok(i) => i.to_string(),
      Err(_) => "!".into(),
   });
   f.push(sh(&std::cmp::max_by(a.clone(), b.clone(), Ord::cmp)));
   f.push(sh(&a.clone().clamp(v[0].clone(), v[1].clone())));
   f.join(" ; ")
}

type OrdOpsF = Option<fn(&mut Toks) -> String>;

fn run<T: Lattice + Clone + PartialEq + Val>(mode: &str, toks: &mut Toks, cmpf: CmpF<T>, bndf: BndF<T>, oo: OrdOpsF) -> String {
   match mode {
      "2" => pair::<T>(toks, cmpf),
      "3" => triple::<T>(toks),
      "O" => match oo {
         Some(f) => f(toks),
         None => "-".into(),
      },
      "B" => match bndf {
         Some(f) => {
            let (b, t) = f();
            format!("{} ; {}", sh(&b), sh(&t))
         },
         None => "none".into(),
      },
      _ => panic!("mode"),
   }
}

macro_rules! ordf {
   (ord, $t:ty) => {
      Some((|a: &$t, b: &$t| Ord::cmp(a, b)) as fn(&$t, &$t) -> Ordering)
   };
   (noord, $t:ty) => {
      None::<fn(&$t, &$t) -> Ordering>
   };
}
macro_rules! ordops {
   (ord, $t:ty) => {
      Some(ord_ops::<$t> as fn(&mut Toks) -> String)
   };
   (noord, $t:ty) => {
      None::<fn(&mut Toks) -> String>
   };
}
macro_rules! bndf {
   (b, $t:ty) => {
      Some((|| (<$t as BoundedLattice>::bottom(), <$t as BoundedLattice>::top())) as fn() -> ($t, $t))
   };
   (nb, $t:ty) => {
      None::<fn() -> ($t, $t)>
   };
}
macro_rules! table {
   ($( $tag:literal => $t:ty, $o:ident, $b:ident; )*) => {
      fn dispatch(mode: &str, tag: &str, toks: &mut Toks) -> String {
         match tag {
            $( $tag => run::<$t>(mode, toks, ordf!($o, $t), bndf!($b, $t), ordops!($o, $t)), )*
            _ => panic!("unknown tag {}", tag),
         }
      }
      fn tags() -> Vec<(&'static str, String, &'static str, &'static str)> {
         vec![ $( ($tag, std::any::type_name::<$t>().to_string(), stringify!($o), stringify!($b)) ),* ]
      }
   };
}

type T11 = (bool, i32, bool, (), bool, Option<bool>, bool, i32, bool, Dual<bool>, i32);

// tag => Rust type, implements Ord?, implements BoundedLattice?   (mirrored by TYPES in gen/props/c16.py)
table! {
   "i8" => i8, ord, b;
   "u8" => u8, ord, b;
   "i16" => i16, ord, b;
   "u16" => u16, ord, b;
   "i32" => i32, ord, b;
   "u32" => u32, ord, b;
   "i64" => i64, ord, b;
   "u64" => u64, ord, b;
   "i128" => i128, ord, b;
   "u128" => u128, ord, b;
   "isize" => isize, ord, b;
   "usize" => usize, ord, b;
   "bool" => bool, ord, b;
   "unit" => (), ord, b;
   "opt_i32" => Option<i32>, ord, b;
   "opt_opt_bool" => Option<Option<bool>>, ord, b;
   "opt_prod" => Option<Product<(i32, bool)>>, noord, b;
   "opt_cp" => Option<ConstPropagation<i32>>, noord, b;
   "rc_i32" => Rc<i32>, ord, nb;
   "rc_prod2" => Rc<Product<(i32, i32)>>, noord, nb;
   "rc_opt_set" => Rc<Option<Set<i32>>>, noord, nb;
   "arc_i32" => Arc<i32>, ord, nb;
   "arc_set" => Arc<Set<i32>>, noord, nb;
   "arc_rc_prod" => Arc<Rc<Product<(bool, Set<i32>)>>>, noord, nb;
   "box_opt_i32" => Box<Option<i32>>, ord, nb;
   "box_prod" => Box<Product<(bool, Set<i32>)>>, noord, nb;
   "rev_i32" => Reverse<i32>, ord, b;
   "rev_set" => Reverse<Set<i32>>, noord, nb;
   "rev_prod" => Reverse<Product<(i32, bool)>>, noord, b;
   "rev_bset2" => Reverse<BoundedSet<2, i32>>, noord, b;
   "dual_i32" => Dual<i32>, ord, b;
   "dual_opt_prod" => Dual<Option<Product<(i32, bool)>>>, noord, b;
   "dual_dual_set" => Dual<Dual<Set<i32>>>, noord, nb;
   "dual_bset2" => Dual<BoundedSet<2, i32>>, noord, b;
   "dual_rev_cp" => Dual<Reverse<ConstPropagation<i32>>>, noord, b;
   "ord_i32" => OrdLattice<i32>, ord, nb;
   "ord_tup" => OrdLattice<(i32, bool)>, ord, nb;
   "ord_opt" => OrdLattice<Option<i32>>, ord, nb;
   "ord_rev" => OrdLattice<Reverse<i32>>, ord, nb;
   "tup1" => (i32,), ord, b;
   "tup2" => (i32, bool), ord, b;
   "tup3" => (i32, Option<bool>, Dual<i32>), ord, b;
   "tup3n" => (Reverse<bool>, OrdLattice<(bool, i32)>, ()), ord, nb;
   "tup_nest" => ((i32, bool), Option<(bool,)>), ord, b;
   "tup11" => T11, ord, b;
   "prod1" => Product<(i32,)>, noord, b;
   "prod2" => Product<(i32, i32)>, noord, b;
   "prod3" => Product<(bool, Option<bool>, Set<i32>)>, noord, nb;
   "prod3b" => Product<(bool, ConstPropagation<i32>, BoundedSet<1, i32>)>, noord, b;
   "prod_nest" => Product<(Product<(bool, bool)>, (i32, bool))>, noord, b;
   "prod11" => Product<T11>, noord, b;
   "arr0" => Product<[i32; 0]>, noord, b;
   "arr1" => Product<[bool; 1]>, noord, b;
   "arr2" => Product<[i32; 2]>, noord, b;
   "arr3" => Product<[Option<bool>; 3]>, noord, b;
   "arr4" => Product<[bool; 4]>, noord, b;
   "arr2set" => Product<[Set<i32>; 2]>, noord, nb;
   "arr2prod" => Product<[Product<(bool, i32)>; 2]>, noord, b;
   "set" => Set<i32>, noord, nb;
   "bset0" => BoundedSet<0, i32>, noord, b;
   "bset1" => BoundedSet<1, i32>, noord, b;
   "bset2" => BoundedSet<2, i32>, noord, b;
   "bset3" => BoundedSet<3, i32>, noord, b;
   "set_tup" => Set<(i32, bool)>, noord, nb;
   "set_opt" => Set<Option<i32>>, noord, nb;
   "set_rev" => Set<Reverse<i32>>, noord, nb;
   "set_dual_tup" => Set<(Dual<i32>, bool)>, noord, nb;
   "prod_set_tup" => Product<(Set<(bool, bool)>, bool)>, noord, nb;
   "cp_i32" => ConstPropagation<i32>, noord, b;
   "cp_bool" => ConstPropagation<bool>, noord, b;
   "cp_set" => ConstPropagation<Set<i32>>, noord, b;
   "cp_cp" => ConstPropagation<ConstPropagation<bool>>, noord, b;
   "cp_rev" => Reverse<ConstPropagation<i32>>, noord, b;
   // tuple lattices (join_mut / meet_mut through Ord::cmp) with Dual / Reverse / Option components at every position, and wrappers around them
   "tup_du" => (Dual<i32>, i32), ord, b;
   "tup_ud" => (i32, Dual<i32>), ord, b;
   "tup_dd" => (Dual<i32>, Dual<bool>), ord, b;
   "tup_ru" => (Reverse<i32>, bool), ord, b;
   "tup_od" => (Option<i32>, Dual<bool>), ord, b;
   "tup_udu" => (bool, Dual<i32>, i32), ord, b;
   "tup_dud" => (Dual<bool>, i32, Dual<i32>), ord, b;
   "tup_nest_d" => ((Dual<i32>, bool), Reverse<bool>), ord, b;
   "dual_tup" => Dual<(i32, bool)>, ord, b;
   "dual_tup_d" => Dual<(Dual<i32>, bool)>, ord, b;
   "rev_tup_d" => Reverse<(bool, Dual<i32>)>, ord, b;
   "opt_tup_d" => Option<(Dual<i32>, bool)>, ord, b;
   "ord_tup_d" => OrdLattice<(Dual<i32>, i32)>, ord, nb;
   "ord_dual" => OrdLattice<Dual<i32>>, ord, nb;
   "rc_tup_d" => Rc<(Dual<i32>, bool)>, ord, nb;
   "box_tup_d" => Box<(bool, Dual<i32>)>, ord, nb;
   "set_dual" => Set<Dual<i32>>, noord, nb;
   "prod_tup_d" => Product<((Dual<i32>, bool), i32)>, noord, b;
   "arr_tup_d" => Product<[(Dual<i32>, bool); 2]>, noord, b;
}

fn main() {
   // panics are results, not noise
   panic::set_hook(Box::new(|_| {}));
   let stdin = io::stdin();
   let stdout = io::stdout();
   let mut out = io::BufWriter::new(stdout.lock());
   for line in stdin.lock().lines() {
      let line = line.unwrap();
      let line = line.trim();
      if line.is_empty() {
         continue;
      }
      let toks: Vec<&str> = line.split_whitespace().collect();
      if toks[0] == "T" {
         let v: Vec<String> = tags().iter().map(|(t, n, o, b)| format!("{}={}={}={}", t, n, o, b)).collect();
         writeln!(out, "{}", v.join("|")).unwrap();
         continue;
      }
      let res = panic::catch_unwind(|| {
         let mut t = Toks { t: &toks[2..], pos: 0 };
         dispatch(toks[0], toks[1], &mut t)
      });
      match res {
         Ok(s) => writeln!(out, "{}", s).unwrap(),
         Err(_) => writeln!(out, "panic").unwrap(),
      }
   }
}
