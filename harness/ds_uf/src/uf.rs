//! C18, UnionFind<u32>.  case: <dom> op op ...   ops: a:x  f:x  u:x:y  F:x  U:x:y
//!   a = add(x)   f = find_item(&x)   u = union_add(x, y)
//!   F = unsafe find(id of x)   U = unsafe union(id of x, id of y)   (id = position of first insertion; no-op when absent)
//! per op: `r <return numbers> | e <next parent rank value>* | i <value id>* (sorted) | k <ok()> <len> <is_empty>`
//! The library's UnionFind is driven; a copy compiled from the same source text is driven in
//! lockstep (its Debug dump must equal the library's) and answers ok().
use std::panic::{self, AssertUnwindSafe};

use ascent_byods_rels::uf::elems::Id;
use ascent_byods_rels::uf::UnionFind;

use crate::uf_src;

/// all decimal numbers of a Debug dump, in order
fn nums(s: &str) -> Vec<u64> {
   let mut res = vec![];
   let mut cur: Option<u64> = None;
   for c in s.chars() {
      if let Some(d) = c.to_digit(10) {
         cur = Some(cur.unwrap_or(0) * 10 + d as u64);
      } else if let Some(v) = cur.take() {
         res.push(v);
      }
   }
   if let Some(v) = cur {
      res.push(v);
   }
   res
}

fn idn<T: std::fmt::Debug>(id: &T) -> u64 { nums(&format!("{:?}", id))[0] }

fn join(v: &[u64]) -> String { v.iter().map(|x| x.to_string()).collect::<Vec<_>>().join(" ") }

pub fn run(toks: &[&str]) -> String {
   let mut uf: UnionFind<u32> = UnionFind::default();
   let mut cp: uf_src::UnionFind<u32> = uf_src::UnionFind::default();
   // Id(k) for every position k, obtained legitimately from a scratch structure (Ids are opaque)
   let mut scratch: UnionFind<u32> = UnionFind::default();
   let mut cscratch: uf_src::UnionFind<u32> = uf_src::UnionFind::default();
   let table: Vec<Id> = (0..64u32).map(|k| scratch.add(k).1).collect();
   let ctable: Vec<uf_src::elems::Id> = (0..64u32).map(|k| cscratch.add(k).1).collect();
   // position of each value = order of first insertion (tracked here, the structure is not asked)
   let mut known: Vec<u32> = vec![];
   let pos = |known: &Vec<u32>, x: u32| known.iter().position(|v| *v == x);
   let mut steps: Vec<String> = vec![];
   for (i, t) in toks[1..].iter().enumerate() {
      let p: Vec<&str> = t.split(':').collect();
      let a: Vec<u32> = p[1..].iter().map(|x| x.parse().unwrap()).collect();
      let r = panic::catch_unwind(AssertUnwindSafe(|| {
         let ret: Vec<u64> = match p[0] {
            "a" => {
               let (new, id) = uf.add(a[0]);
               cp.add(a[0]);
               if pos(&known, a[0]).is_none() {
                  known.push(a[0]);
               }
               vec![new as u64, idn(&id)]
            },
            "f" => {
               cp.find_item(&a[0]);
               match uf.find_item(&a[0]) {
                  Some(id) => vec![idn(&id)],
                  None => vec![],
               }
            },
            "u" => {
               for x in [a[0], a[1]] {
                  if pos(&known, x).is_none() {
                     known.push(x);
                  }
               }
               cp.union_add(a[0], a[1]);
               vec![idn(&uf.union_add(a[0], a[1]))]
            },
            "F" => match pos(&known, a[0]) {
               Some(k) => {
                  unsafe { cp.find(ctable[k]) };
                  vec![idn(&unsafe { uf.find(table[k]) })]
               },
               None => vec![],
            },
            "U" => match (pos(&known, a[0]), pos(&known, a[1])) {
               (Some(x), Some(y)) => {
                  unsafe { cp.union(ctable[x], ctable[y]) };
                  vec![idn(&unsafe { uf.union(table[x], table[y]) })]
               },
               _ => vec![],
            },
            _ => panic!("op"),
         };
         let dump = format!("{:?}", uf);
         let cdump = format!("{:?}", cp);
         let (e, it) = dump.split_once("items:").unwrap();
         let mut items: Vec<(u64, u64)> = nums(it).chunks(2).map(|c| (c[0], c[1])).collect();
         items.sort();
         let items: Vec<u64> = items.iter().flat_map(|(k, v)| [*k, *v]).collect();
         // the copy must be in the same state (HashMap order may differ: compare canonically)
         let (ce, cit) = cdump.split_once("items:").unwrap();
         let mut citems: Vec<(u64, u64)> = nums(cit).chunks(2).map(|c| (c[0], c[1])).collect();
         citems.sort();
         let citems: Vec<u64> = citems.iter().flat_map(|(k, v)| [*k, *v]).collect();
         let same = nums(e) == nums(ce) && items == citems;
         let ok = if same { uf_src::ok_on_copy(&cp) as u64 } else { 9 };
         format!("r {} | e {} | i {} | k {} {} {}", join(&ret), join(&nums(e)), join(&items), ok, uf.len(), uf.is_empty() as u64)
      }));
      match r {
         Ok(s) => steps.push(s),
         Err(_) => {
            steps.push(format!("panic@{}", i));
            break;
         },
      }
   }
   steps.join(" # ")
}
