//! ds_uf: runs operation histories against the real union-find structures of
//! /repo/byods/ascent-byods-rels and prints, after EVERY operation, all observable answers
//! in a canonical form.  One history per stdin line, one result line per history.
//! Usage: ds_uf <suite>     suite = uf | truf
//! A panic anywhere ends the history's line with `panic@<op index>`.
use std::io::{self, BufRead, Write};
use std::panic;

mod truf;
mod uf;
mod uf_src;

fn main() {
   let suite = std::env::args().nth(1).expect("suite");
   panic::set_hook(Box::new(|_| {}));
   let stdin = io::stdin();
   let stdout = io::stdout();
   let mut out = io::BufWriter::new(stdout.lock());
   for line in stdin.lock().lines() {
      let line = line.unwrap();
      let line = line.trim();
      if line.is_empty() {
         continue;
      }
      let toks: Vec<&str> = line.split_whitespace().collect();
      let s = match suite.as_str() {
         "uf" => uf::run(&toks),
         "truf" => truf::run(&toks),
         _ => panic!("unknown suite"),
      };
      writeln!(out, "{}", s).unwrap();
   }
}
