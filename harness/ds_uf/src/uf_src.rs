//! The source text of uf.rs compiled a second time inside this module, so that the private
//! `UnionFind::ok()` (uf.rs:425, only reachable from the crate's own tests) can be called.
//! Nothing of the file is changed; the two functions below live in the same module and
//! therefore see its private items.
#![allow(dead_code, unused_imports, clippy::all)]
include!("/repo/byods/ascent-byods-rels/src/uf.rs");

/// the structure's own O(n^2) check, run on a copy (ok() itself halves paths through find)
pub fn ok_on_copy<T: Clone + Hash + Eq>(u: &UnionFind<T>) -> bool {
   let c = UnionFind { elems: u.elems.clone(), items: u.items.clone() };
   c.ok()
}
