//! C18, TrRelUnionFind<u32>.  case: <dom> x:y x:y ...   (each token is add(x, y))
//! per add, fields separated by `|`:
//!   r=<add's bool>  c=<dom*dom bits of contains(x,y), row major>  i=<sorted x-y pairs of iter_all>
//!   s=<set_of(x) for x in 0..dom: `-` for None, else sorted elements joined by `.`>  v=<rev_set_of likewise>
//!   n=<count_exact>  a=<assert_disjoint_invariant passed><assert_set_connections_dominant_sets passed>
//!   e=<is_empty>  d=<Debug dump of the structure>
use std::panic::{self, AssertUnwindSafe};

use ascent_byods_rels::trrel_union_find::TrRelUnionFind;

fn show_set<'a>(it: Option<impl Iterator<Item = &'a u32>>) -> String {
   match it {
      None => "-".to_string(),
      Some(it) => {
         let mut v: Vec<u32> = it.cloned().collect();
         v.sort();
         v.iter().map(|x| x.to_string()).collect::<Vec<_>>().join(".")
      },
   }
}

pub fn run(toks: &[&str]) -> String {
   let dom: u32 = toks[0].parse().unwrap();
   let mut rel: TrRelUnionFind<u32> = TrRelUnionFind::default();
   let mut steps: Vec<String> = vec![];
   for (i, t) in toks[1..].iter().enumerate() {
      let (x, y) = t.split_once(':').unwrap();
      let (x, y): (u32, u32) = (x.parse().unwrap(), y.parse().unwrap());
      let r = panic::catch_unwind(AssertUnwindSafe(|| {
         let ret = rel.add(x, y);
         let mut c = String::new();
         for a in 0..dom {
            for b in 0..dom {
               c.push(if rel.contains(&a, &b) { '1' } else { '0' });
            }
         }
         let mut ia: Vec<(u32, u32)> = rel.iter_all().map(|(a, b)| (*a, *b)).collect();
         ia.sort();
         let ia: Vec<String> = ia.iter().map(|(a, b)| format!("{}-{}", a, b)).collect();
         let s: Vec<String> = (0..dom).map(|a| show_set(rel.set_of(&a))).collect();
         let v: Vec<String> = (0..dom).map(|a| show_set(rel.rev_set_of(&a))).collect();
         let n = rel.count_exact();
         let a1 = panic::catch_unwind(AssertUnwindSafe(|| rel.assert_disjoint_invariant())).is_ok();
         let a2 = panic::catch_unwind(AssertUnwindSafe(|| rel.assert_set_connections_dominant_sets())).is_ok();
         format!(
            "r={}|c={}|i={}|s={}|v={}|n={}|a={}{}|e={}|d={:?}",
            ret as u8,
            c,
            ia.join(","),
            s.join(","),
            v.join(","),
            n,
            a1 as u8,
            a2 as u8,
            rel.is_empty() as u8,
            rel
         )
      }));
      match r {
         Ok(s) => steps.push(s),
         Err(_) => {
            steps.push(format!("panic@{}", i));
            break;
         },
      }
   }
   steps.join(" # ")
}
