//! ternary form: TrRel2IndCommonWrapper<R1, R2, u32, u32> (per-key map of binary relations plus the two
//! reverse maps) with the views Full / None / 0 / 1 / 2 / 0_1 / 0_2 / 1_2.
//! StateAll: the relation is declared with every index (both reverse maps present);
//! StateMin: only [], [0], [0,1], [0,2], [0,1,2] (no reverse map; views 1, 2, 1_2 do not exist).
use ascent::internal::{
   RelFullIndexRead, RelFullIndexWrite, RelIndexMerge, RelIndexRead, RelIndexReadAll, ToRelIndex,
};

use crate::Acc;

macro_rules! all_inds { () => { [[], [0], [0, 1], [0, 1, 2], [0, 2], [1], [1, 2], [2]] }; }

type CommonAll = ascent_byods_rels::trrel::rel_ind_common!(r, (u32, u32, u32), [[], [0], [0, 1], [0, 1, 2], [0, 2], [1], [1, 2], [2]], ser, ());
type CommonMin = ascent_byods_rels::trrel::rel_ind_common!(r, (u32, u32, u32), [[], [0], [0, 1], [0, 1, 2], [0, 2]], ser, ());

type Full = ascent_byods_rels::trrel::rel_full_ind!(r, (u32, u32, u32), all_inds!(), ser, (), (u32, u32, u32), ());
type INone = ascent_byods_rels::trrel::rel_ind!(r, (u32, u32, u32), all_inds!(), ser, (), [], (), (u32, u32, u32));
type I0 = ascent_byods_rels::trrel::rel_ind!(r, (u32, u32, u32), all_inds!(), ser, (), [0], (u32,), (u32, u32));
type I1 = ascent_byods_rels::trrel::rel_ind!(r, (u32, u32, u32), all_inds!(), ser, (), [1], (u32,), (u32, u32));
type I2 = ascent_byods_rels::trrel::rel_ind!(r, (u32, u32, u32), all_inds!(), ser, (), [2], (u32,), (u32, u32));
type I01 = ascent_byods_rels::trrel::rel_ind!(r, (u32, u32, u32), all_inds!(), ser, (), [0, 1], (u32, u32), (u32,));
type I02 = ascent_byods_rels::trrel::rel_ind!(r, (u32, u32, u32), all_inds!(), ser, (), [0, 2], (u32, u32), (u32,));
type I12 = ascent_byods_rels::trrel::rel_ind!(r, (u32, u32, u32), all_inds!(), ser, (), [1, 2], (u32, u32), (u32,));

pub trait Driver {
   fn step(&mut self, keys: u32, dom: u32, op: &str) -> Vec<u128>;
}

fn cell(keys: u32, dom: u32, k: u32, x: u32, y: u32) -> Option<usize> {
   if k < keys && x < dom && y < dom { Some(((k * dom + x) * dom + y) as usize) } else { None }
}

macro_rules! driver {
   ($name: ident, $common: ty, $has_rev: expr) => {
      pub struct $name {
         new: $common,
         delta: $common,
         total: $common,
      }

      impl $name {
         pub fn new() -> Self {
            let mut s = $name { new: Default::default(), delta: Default::default(), total: Default::default() };
            RelIndexMerge::init(&mut s.new, &mut s.delta, &mut s.total);
            s
         }

         fn observe(v: &$common, keys: u32, dom: u32, out: &mut Vec<u128>) {
            let full: Full = Default::default();
            let none: INone = Default::default();
            let i0: I0 = Default::default();
            let i01: I01 = Default::default();
            let i02: I02 = Default::default();
            {
               let ind = full.to_rel_index(v);
               let mut c = Acc::new();
               let mut g = Acc::new();
               for k in 0..keys {
                  for x in 0..dom {
                     for y in 0..dom {
                        if ind.contains_key(&(k, x, y)) {
                           c.add(cell(keys, dom, k, x, y));
                        }
                        if let Some(it) = ind.index_get(&(k, x, y)) {
                           for () in it {
                              g.add(cell(keys, dom, k, x, y));
                           }
                        }
                     }
                  }
               }
               let mut a = Acc::new();
               for ((k, x, y), vals) in ind.iter_all() {
                  for () in vals {
                     a.add(cell(keys, dom, *k, *x, *y));
                  }
               }
               c.push(out);
               g.push(out);
               a.push(out);
               out.push(RelIndexRead::is_empty(&ind) as u128);
            }
            {
               let ind = none.to_rel_index(v);
               let mut g = Acc::new();
               if let Some(it) = ind.index_get(&()) {
                  for (k, x, y) in it {
                     g.add(cell(keys, dom, *k, *x, *y));
                  }
               }
               let mut a = Acc::new();
               for ((), vals) in ind.iter_all() {
                  for (k, x, y) in vals {
                     a.add(cell(keys, dom, *k, *x, *y));
                  }
               }
               g.push(out);
               a.push(out);
               out.push(RelIndexRead::is_empty(&ind) as u128);
            }
            {
               let ind = i0.to_rel_index(v);
               let mut g = Acc::new();
               for k in 0..keys {
                  if let Some(it) = ind.index_get(&(k,)) {
                     for (x, y) in it {
                        g.add(cell(keys, dom, k, *x, *y));
                     }
                  }
               }
               let mut a = Acc::new();
               for ((k,), vals) in ind.iter_all() {
                  for (x, y) in vals {
                     a.add(cell(keys, dom, *k, *x, *y));
                  }
               }
               g.push(out);
               a.push(out);
               out.push(RelIndexRead::is_empty(&ind) as u128);
            }
            {
               let ind = i01.to_rel_index(v);
               let mut g = Acc::new();
               for k in 0..keys {
                  for x in 0..dom {
                     if let Some(it) = ind.index_get(&(k, x)) {
                        for (y,) in it {
                           g.add(cell(keys, dom, k, x, *y));
                        }
                     }
                  }
               }
               let mut a = Acc::new();
               for ((k, x), vals) in ind.iter_all() {
                  for (y,) in vals {
                     a.add(cell(keys, dom, *k, *x, *y));
                  }
               }
               g.push(out);
               a.push(out);
               out.push(RelIndexRead::is_empty(&ind) as u128);
            }
            {
               let ind = i02.to_rel_index(v);
               let mut g = Acc::new();
               for k in 0..keys {
                  for y in 0..dom {
                     if let Some(it) = ind.index_get(&(k, y)) {
                        for (x,) in it {
                           g.add(cell(keys, dom, k, *x, y));
                        }
                     }
                  }
               }
               let mut a = Acc::new();
               for ((k, y), vals) in ind.iter_all() {
                  for (x,) in vals {
                     a.add(cell(keys, dom, *k, *x, *y));
                  }
               }
               g.push(out);
               a.push(out);
               out.push(RelIndexRead::is_empty(&ind) as u128);
            }
            out.push(crate::le_flag(|| full.to_rel_index(v).len_estimate()));
            out.push(crate::le_flag(|| none.to_rel_index(v).len_estimate()));
            out.push(crate::le_flag(|| i0.to_rel_index(v).len_estimate()));
            out.push(crate::le_flag(|| i01.to_rel_index(v).len_estimate()));
            out.push(crate::le_flag(|| i02.to_rel_index(v).len_estimate()));
            if $has_rev {
               let i1: I1 = Default::default();
               let i2: I2 = Default::default();
               let i12: I12 = Default::default();
               {
                  let ind = i1.to_rel_index(v);
                  let mut g = Acc::new();
                  for x in 0..dom {
                     if let Some(it) = ind.index_get(&(x,)) {
                        for (k, y) in it {
                           g.add(cell(keys, dom, *k, x, *y));
                        }
                     }
                  }
                  let mut a = Acc::new();
                  for ((x,), vals) in ind.iter_all() {
                     for (k, y) in vals {
                        a.add(cell(keys, dom, *k, *x, *y));
                     }
                  }
                  g.push(out);
                  a.push(out);
                  out.push(RelIndexRead::is_empty(&ind) as u128);
               }
               {
                  let ind = i2.to_rel_index(v);
                  let mut g = Acc::new();
                  for y in 0..dom {
                     if let Some(it) = ind.index_get(&(y,)) {
                        for (k, x) in it {
                           g.add(cell(keys, dom, *k, *x, y));
                        }
                     }
                  }
                  let mut a = Acc::new();
                  for ((y,), vals) in ind.iter_all() {
                     for (k, x) in vals {
                        a.add(cell(keys, dom, *k, *x, *y));
                     }
                  }
                  g.push(out);
                  a.push(out);
                  out.push(RelIndexRead::is_empty(&ind) as u128);
               }
               {
                  let ind = i12.to_rel_index(v);
                  let mut g = Acc::new();
                  for x in 0..dom {
                     for y in 0..dom {
                        if let Some(it) = ind.index_get(&(x, y)) {
                           for (k,) in it {
                              g.add(cell(keys, dom, *k, x, y));
                           }
                        }
                     }
                  }
                  let mut a = Acc::new();
                  for ((x, y), vals) in ind.iter_all() {
                     for (k,) in vals {
                        a.add(cell(keys, dom, *k, *x, *y));
                     }
                  }
                  g.push(out);
                  a.push(out);
                  out.push(RelIndexRead::is_empty(&ind) as u128);
               }
               out.push(crate::le_flag(|| i1.to_rel_index(v).len_estimate()));
               out.push(crate::le_flag(|| i2.to_rel_index(v).len_estimate()));
               out.push(crate::le_flag(|| i12.to_rel_index(v).len_estimate()));
            }
         }
      }

      impl Driver for $name {
         fn step(&mut self, keys: u32, dom: u32, op: &str) -> Vec<u128> {
            let mut out = vec![];
            let parts: Vec<&str> = op.split(':').collect();
            let mut full: Full = Default::default();
            match parts[0] {
               "i" => {
                  let k: u32 = parts[1].parse().unwrap();
                  let x: u32 = parts[2].parse().unwrap();
                  let y: u32 = parts[3].parse().unwrap();
                  let ct = full.to_rel_index(&self.total).contains_key(&(k, x, y));
                  let cd = full.to_rel_index(&self.delta).contains_key(&(k, x, y));
                  out.push(ct as u128);
                  out.push(cd as u128);
                  if !ct && !cd {
                     let r = full.to_rel_index_write(&mut self.new).insert_if_not_present(&(k, x, y), ());
                     out.push(r as u128);
                  } else {
                     out.push(2);
                  }
               },
               "m" => {
                  RelIndexMerge::merge_delta_to_total_new_to_delta(&mut self.new, &mut self.delta, &mut self.total);
                  Self::observe(&self.delta, keys, dom, &mut out);
                  Self::observe(&self.total, keys, dom, &mut out);
               },
               "r" => {
                  let stored = std::mem::take(&mut self.total);
                  self.delta = stored;
                  self.total = Default::default();
                  self.new = Default::default();
                  RelIndexMerge::init(&mut self.new, &mut self.delta, &mut self.total);
                  Self::observe(&self.delta, keys, dom, &mut out);
                  Self::observe(&self.total, keys, dom, &mut out);
               },
               _ => panic!("bad op"),
            }
            out
         }
      }
   };
}

driver!(StateAll, CommonAll, true);
driver!(StateMin, CommonMin, false);
