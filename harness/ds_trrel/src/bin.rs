//! binary form: TrRelIndCommon<u32> with the views ToTrRelIndFull / IndNone / Ind0 / Ind1
use ascent::internal::{
   RelFullIndexRead, RelFullIndexWrite, RelIndexMerge, RelIndexRead, RelIndexReadAll, ToRelIndex,
};

use crate::Acc;

type Common = ascent_byods_rels::trrel::rel_ind_common!(r, (u32, u32), [[], [0], [0, 1], [1]], ser, ());
type Full = ascent_byods_rels::trrel::rel_full_ind!(r, (u32, u32), [[], [0], [0, 1], [1]], ser, (), (u32, u32), ());
type INone = ascent_byods_rels::trrel::rel_ind!(r, (u32, u32), [[], [0], [0, 1], [1]], ser, (), [], (), (u32, u32));
type I0 = ascent_byods_rels::trrel::rel_ind!(r, (u32, u32), [[], [0], [0, 1], [1]], ser, (), [0], (u32,), (u32,));
type I1 = ascent_byods_rels::trrel::rel_ind!(r, (u32, u32), [[], [0], [0, 1], [1]], ser, (), [1], (u32,), (u32,));

pub struct State {
   new: Common,
   delta: Common,
   total: Common,
   full: Full,
   none: INone,
   i0: I0,
   i1: I1,
}

fn cell(dom: u32, x: u32, y: u32) -> Option<usize> {
   if x < dom && y < dom { Some((x * dom + y) as usize) } else { None }
}

impl State {
   pub fn new() -> Self {
      let mut s = State {
         new: Default::default(),
         delta: Default::default(),
         total: Default::default(),
         full: Default::default(),
         none: Default::default(),
         i0: Default::default(),
         i1: Default::default(),
      };
      RelIndexMerge::init(&mut s.new, &mut s.delta, &mut s.total);
      s
   }
}

fn observe(st: &State, v: &Common, dom: u32, out: &mut Vec<u128>) {
   // full index: contains_key, index_get, iter_all, is_empty
   {
      let ind = st.full.to_rel_index(v);
      let mut c = Acc::new();
      let mut g = Acc::new();
      for x in 0..dom {
         for y in 0..dom {
            if ind.contains_key(&(x, y)) {
               c.add(cell(dom, x, y));
            }
            if let Some(it) = ind.index_get(&(x, y)) {
               for () in it {
                  g.add(cell(dom, x, y));
               }
            }
         }
      }
      let mut a = Acc::new();
      for ((x, y), vals) in ind.iter_all() {
         for () in vals {
            a.add(cell(dom, *x, *y));
         }
      }
      c.push(out);
      g.push(out);
      a.push(out);
      out.push(RelIndexRead::is_empty(&ind) as u128);
   }
   // no index
   {
      let ind = st.none.to_rel_index(v);
      let mut g = Acc::new();
      if let Some(it) = ind.index_get(&()) {
         for (x, y) in it {
            g.add(cell(dom, *x, *y));
         }
      }
      let mut a = Acc::new();
      for ((), vals) in ind.iter_all() {
         for (x, y) in vals {
            a.add(cell(dom, *x, *y));
         }
      }
      g.push(out);
      a.push(out);
      out.push(RelIndexRead::is_empty(&ind) as u128);
   }
   // index on column 0
   {
      let ind = st.i0.to_rel_index(v);
      let mut g = Acc::new();
      for x in 0..dom {
         if let Some(it) = ind.index_get(&(x,)) {
            for (y,) in it {
               g.add(cell(dom, x, *y));
            }
         }
      }
      let mut a = Acc::new();
      for ((x,), vals) in ind.iter_all() {
         for (y,) in vals {
            a.add(cell(dom, *x, *y));
         }
      }
      g.push(out);
      a.push(out);
      out.push(RelIndexRead::is_empty(&ind) as u128);
   }
   // index on column 1
   {
      let ind = st.i1.to_rel_index(v);
      let mut g = Acc::new();
      for y in 0..dom {
         if let Some(it) = ind.index_get(&(y,)) {
            for (x,) in it {
               g.add(cell(dom, *x, y));
            }
         }
      }
      let mut a = Acc::new();
      for ((y,), vals) in ind.iter_all() {
         for (x,) in vals {
            a.add(cell(dom, *x, *y));
         }
      }
      g.push(out);
      a.push(out);
      out.push(RelIndexRead::is_empty(&ind) as u128);
   }
   out.push(crate::le_flag(|| st.full.to_rel_index(v).len_estimate()));
   out.push(crate::le_flag(|| st.none.to_rel_index(v).len_estimate()));
   out.push(crate::le_flag(|| st.i0.to_rel_index(v).len_estimate()));
   out.push(crate::le_flag(|| st.i1.to_rel_index(v).len_estimate()));
}

pub fn step(st: &mut State, dom: u32, op: &str) -> Vec<u128> {
   let mut out = vec![];
   let parts: Vec<&str> = op.split(':').collect();
   match parts[0] {
      "i" => {
         let x: u32 = parts[1].parse().unwrap();
         let y: u32 = parts[2].parse().unwrap();
         // head update of generated code: contains(total), contains(delta), insert_if_not_present(new)
         let ct = st.full.to_rel_index(&st.total).contains_key(&(x, y));
         let cd = st.full.to_rel_index(&st.delta).contains_key(&(x, y));
         out.push(ct as u128);
         out.push(cd as u128);
         if !ct && !cd {
            let r = st.full.to_rel_index_write(&mut st.new).insert_if_not_present(&(x, y), ());
            out.push(r as u128);
         } else {
            out.push(2);
         }
      },
      "m" => {
         RelIndexMerge::merge_delta_to_total_new_to_delta(&mut st.new, &mut st.delta, &mut st.total);
         observe(st, &st.delta, dom, &mut out);
         observe(st, &st.total, dom, &mut out);
      },
      "r" => {
         // end of an SCC: the total is stored in the program; start of the next one takes it as delta
         let stored = std::mem::take(&mut st.total);
         st.delta = stored;
         st.total = Default::default();
         st.new = Default::default();
         RelIndexMerge::init(&mut st.new, &mut st.delta, &mut st.total);
         observe(st, &st.delta, dom, &mut out);
         observe(st, &st.total, dom, &mut out);
      },
      _ => panic!("bad op"),
   }
   out
}
