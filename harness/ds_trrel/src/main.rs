//! ds_trrel: drives the real `#[ds(trrel)]` provider types of /repo (binary TrRelIndCommon and the
//! ternary TrRel2IndCommonWrapper) through the public BYODS traits exactly as generated code does,
//! and prints after every step one flat vector of integers (see gen/c11_ds.py for the layout).
//!
//! Usage: ds_trrel <bin|ter|tern>      cases on stdin, one per line:   <keys> <dom> op op ...
//!   ops: i:x:y / i:k:x:y  engine-protocol insertion into `new` (contains(total), contains(delta) first)
//!        m                merge_delta_to_total_new_to_delta, then every view of delta and total is read
//!        r                SCC boundary: delta := take(total), total := default, new := default, init
//! Result lines start with "@@ " (the library itself prints to stdout in TrRelIndNone::index_get).
use std::io::{self, BufRead, Write};
use std::panic::{self, AssertUnwindSafe};

mod bin;
mod ter;

pub struct Acc {
   pub mask: u128,
   pub count: u64,
   pub oob: u64,
}
impl Acc {
   pub fn new() -> Self { Acc { mask: 0, count: 0, oob: 0 } }
   pub fn add(&mut self, cell: Option<usize>) {
      self.count += 1;
      match cell {
         Some(c) if c < 128 => self.mask |= 1u128 << c,
         _ => self.oob += 1,
      }
   }
   pub fn push(&self, out: &mut Vec<u128>) {
      out.push(self.mask);
      out.push(self.count as u128 + ((self.oob as u128) << 40));
   }
}

pub fn le_flag<F: FnOnce() -> usize>(f: F) -> u128 {
   // len_estimate only steers join order: its value is not compared, only whether the call panics
   match panic::catch_unwind(AssertUnwindSafe(f)) {
      Ok(_) => 0,
      Err(_) => 1,
   }
}

fn main() {
   let suite = std::env::args().nth(1).expect("suite");
   panic::set_hook(Box::new(|_| {}));
   let stdin = io::stdin();
   let stdout = io::stdout();
   for line in stdin.lock().lines() {
      let line = line.unwrap();
      let line = line.trim().to_string();
      if line.is_empty() {
         continue;
      }
      let toks: Vec<&str> = line.split_whitespace().collect();
      let keys: u32 = toks[0].parse().unwrap();
      let dom: u32 = toks[1].parse().unwrap();
      let ops = &toks[2..];
      let mut steps: Vec<String> = vec![];
      match suite.as_str() {
         "bin" => {
            let mut st = bin::State::new();
            for (i, op) in ops.iter().enumerate() {
               let r = panic::catch_unwind(AssertUnwindSafe(|| bin::step(&mut st, dom, op)));
               match r {
                  Ok(v) => steps.push(v.iter().map(|x| x.to_string()).collect::<Vec<_>>().join(" ")),
                  Err(_) => {
                     steps.push(format!("panic@{}", i));
                     break;
                  },
               }
            }
         },
         "ter" | "tern" => {
            let mut st: Box<dyn ter::Driver> =
               if suite == "ter" { Box::new(ter::StateAll::new()) } else { Box::new(ter::StateMin::new()) };
            for (i, op) in ops.iter().enumerate() {
               let r = panic::catch_unwind(AssertUnwindSafe(|| st.step(keys, dom, op)));
               match r {
                  Ok(v) => steps.push(v.iter().map(|x| x.to_string()).collect::<Vec<_>>().join(" ")),
                  Err(_) => {
                     steps.push(format!("panic@{}", i));
                     break;
                  },
               }
            }
         },
         _ => panic!("unknown suite"),
      }
      let mut out = stdout.lock();
      writeln!(out, "@@ {}", steps.join(" # ")).unwrap();
   }
}
