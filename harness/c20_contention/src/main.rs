//! c20_contention (C20): the BIG `ascent_par!` programs of harness/par_contention (10^4-10^5 keys / tuples, each derived
//! several times in one iteration), with the life of the program value spread over DIFFERENT rayon pools: the value is
//! constructed under one pool (or on the main thread with no pool installed: the global pool is current), its input rows are
//! assigned on the main thread, and it is run - once, or in stages with more input rows assigned in between - under other pools.
//! A pure driver: inputs are read from a binary file written by gen/par_contention.py, the relations are written row by row
//! (storage order, nothing deduplicated or checked here) to binary files that the python specification oracle reads.
//!
//! argv[1] (optional): number of threads of the GLOBAL pool (build_global; 0 / absent = rayon's default)
//! stdin, one run per line:   <program> <perturbation seed> <input file> <output prefix> <construct pools> <step>+
//!    pools  = m            no pool installed (main thread: the global pool is current)
//!           | a[:b[:c]]    fresh pools of a, b, c threads, installed one inside the other (the last one is current)
//!           | =            (steps only) the very pools the value was constructed under
//!    step   = <permille>@<pools>   assign the first permille/1000 of the rows of every input relation (1000 = all), then run()
//!                                  under the pools; after every step with permille = 1000 the relations go to <prefix>.<step number>
//! stdout, one line per run:  ok <ms of step 0> <ms of step 1> ...   |   panic <message>
//! file format (all u32 little endian): repeated [ name length, name bytes, arity, row count, rows ]
//!
//! The ascent_par! blocks are those of harness/par_contention/src/main.rs, token for token (gen/c20_contention.py compares
//! the two files on every run: the python specification of gen/par_contention.py is the oracle of both).
use std::collections::HashMap;
use std::io::{self, BufRead, Read, Write};
use std::panic::{self, AssertUnwindSafe};

use ascent::lattice::set::Set;
use ascent::lattice::Product;
use ascent::rayon::ThreadPool;
use ascent::{ascent_par, Dual};

pub type Rels = HashMap<String, (usize, Vec<u32>)>;
pub type Out = Vec<(&'static str, usize, Vec<u32>)>;

fn read_rels(path: &str) -> Rels {
   let mut buf = vec![];
   std::fs::File::open(path).unwrap().read_to_end(&mut buf).unwrap();
   let word = |i: usize| u32::from_le_bytes([buf[i], buf[i + 1], buf[i + 2], buf[i + 3]]);
   let mut rels = Rels::new();
   let mut i = 0;
   while i < buf.len() {
      let nl = word(i) as usize;
      let name = String::from_utf8(buf[i + 4..i + 4 + nl].to_vec()).unwrap();
      i += 4 + nl;
      let arity = word(i) as usize;
      let n = word(i + 4) as usize;
      i += 8;
      let mut data = Vec::with_capacity(n * arity);
      for j in 0..n * arity {
         data.push(word(i + 4 * j));
      }
      i += 4 * n * arity;
      rels.insert(name, (arity, data));
   }
   rels
}

fn write_rels(path: &str, out: &Out) {
   let mut buf: Vec<u8> = vec![];
   for (name, arity, data) in out {
      buf.extend((name.len() as u32).to_le_bytes());
      buf.extend(name.as_bytes());
      buf.extend((*arity as u32).to_le_bytes());
      buf.extend(((data.len() / arity) as u32).to_le_bytes());
      for w in data {
         buf.extend(w.to_le_bytes());
      }
   }
   std::fs::File::create(path).unwrap().write_all(&buf).unwrap();
}

/// the first permille/1000 of the rows of an input relation
fn prefix(n: usize, permille: usize) -> usize { if permille >= 1000 { n } else { (n * permille + 999) / 1000 } }

fn rows2(r: &Rels, name: &str, permille: usize) -> Vec<(u32, u32)> {
   let (a, d) = r.get(name).unwrap_or_else(|| panic!("input relation {name} missing"));
   assert_eq!(*a, 2);
   let n = prefix(d.len() / 2, permille);
   d.chunks(2).take(n).map(|c| (c[0], c[1])).collect()
}
fn rows3(r: &Rels, name: &str, permille: usize) -> Vec<(u32, u32, u32)> {
   let (a, d) = r.get(name).unwrap_or_else(|| panic!("input relation {name} missing"));
   assert_eq!(*a, 3);
   let n = prefix(d.len() / 3, permille);
   d.chunks(3).take(n).map(|c| (c[0], c[1], c[2])).collect()
}

/// the elements of a Set<u32> (all < 32) as a bit mask
fn mask(s: &Set<u32>) -> u32 { s.iter().fold(0u32, |m, b| m | (1u32 << *b)) }

/// the life of a program value, split into the pieces that the driver places under different pools
pub trait Case: Send + Sized {
   fn construct() -> Self;
   fn assign(&mut self, r: &Rels, permille: usize);
   fn go(&mut self);
   fn dump(&self) -> Out;
}

// ------------------------------------------------------------------ the programs (= harness/par_contention)

/// one rule, integers (join = max)
mod best {
   use super::*;
   ascent_par! {
      pub struct Prog;
      relation inp(u32, u32);
      lattice best(u32, u32);
      best(k, v) <-- inp(k, v);
   }
   impl Case for Prog {
      fn construct() -> Self { Prog::default() }
      fn assign(&mut self, r: &Rels, pm: usize) { self.inp = rows2(r, "inp", pm).into_iter().collect(); }
      fn go(&mut self) { self.run() }
      fn dump(&self) -> Out {
         let mut best = vec![];
         for row in self.best.iter() {
            let row = row.read().unwrap();
            best.extend([row.0, row.1]);
         }
         vec![("best", 2, best)]
      }
   }
}

/// two rules feeding one lattice with a two-column key (Dual: join = min), run side by side
/// (#![inter_rule_parallelism]); a plain relation reads the result through an upward-closed test
mod two {
   use super::*;
   ascent_par! {
      #![inter_rule_parallelism]
      pub struct Prog;
      relation a(u32, u32, u32);
      relation b(u32, u32, u32);
      lattice l(u32, u32, Dual<u32>);
      l(x, y, Dual(*v)) <-- a(x, y, v);
      l(x, y, Dual(*v)) <-- b(x, y, v);
      relation low(u32, u32);
      low(x, y) <-- l(x, y, v), if v.0 < 500;
   }
   impl Case for Prog {
      fn construct() -> Self { Prog::default() }
      fn assign(&mut self, r: &Rels, pm: usize) {
         self.a = rows3(r, "a", pm).into_iter().collect();
         self.b = rows3(r, "b", pm).into_iter().collect();
      }
      fn go(&mut self) { self.run() }
      fn dump(&self) -> Out {
         let mut l = vec![];
         for row in self.l.iter() {
            let row = row.read().unwrap();
            l.extend([row.0, row.1, row.2.0]);
         }
         let mut low = vec![];
         for row in self.low.iter() {
            low.extend([row.0, row.1]);
         }
         vec![("l", 3, l), ("low", 2, low)]
      }
   }
}

/// recursion through the lattice (cheapest path) next to the same recursion on a plain relation: the keys of one
/// layer are created in one iteration, each from several predecessors, and improved in the same and in later ones
mod flow {
   use super::*;
   ascent_par! {
      #![inter_rule_parallelism]
      pub struct Prog;
      relation src(u32, u32);
      relation next(u32, u32, u32);
      lattice d(u32, Dual<u32>);
      d(k, Dual(*v)) <-- src(k, v);
      d(j, Dual(v.0 + *w)) <-- next(k, j, w), d(k, v);
      relation seen(u32);
      seen(k) <-- src(k, _);
      seen(j) <-- next(k, j, _), seen(k);
   }
   impl Case for Prog {
      fn construct() -> Self { Prog::default() }
      fn assign(&mut self, r: &Rels, pm: usize) {
         self.src = rows2(r, "src", pm).into_iter().collect();
         self.next = rows3(r, "next", pm).into_iter().collect();
      }
      fn go(&mut self) { self.run() }
      fn dump(&self) -> Out {
         let mut d = vec![];
         for row in self.d.iter() {
            let row = row.read().unwrap();
            d.extend([row.0, row.1.0]);
         }
         let mut seen = vec![];
         for row in self.seen.iter() {
            seen.push(row.0);
         }
         vec![("d", 2, d), ("seen", 1, seen)]
      }
   }
}

/// partial orders: a set (join = union) and a product of an increasing and a decreasing component; an orphaned
/// row shows up as a proper part of the join
mod part {
   use super::*;
   ascent_par! {
      pub struct Prog;
      relation e(u32, u32, u32);
      lattice s(u32, Set<u32>);
      s(k, Set::singleton(*a % 32)) <-- e(k, a, _);
      lattice pr(u32, Product<(u32, Dual<u32>)>);
      pr(k, Product((*a, Dual(*b)))) <-- e(k, a, b);
      relation big(u32);
      big(k) <-- s(k, st), if st.len() >= 3;
   }
   impl Case for Prog {
      fn construct() -> Self { Prog::default() }
      fn assign(&mut self, r: &Rels, pm: usize) { self.e = rows3(r, "e", pm).into_iter().collect(); }
      fn go(&mut self) { self.run() }
      fn dump(&self) -> Out {
         let mut s = vec![];
         for row in self.s.iter() {
            let row = row.read().unwrap();
            s.extend([row.0, mask(&row.1)]);
         }
         let mut pr = vec![];
         for row in self.pr.iter() {
            let row = row.read().unwrap();
            pr.extend([row.0, row.1.0.0, row.1.0.1.0]);
         }
         let mut big = vec![];
         for row in self.big.iter() {
            big.push(row.0);
         }
         vec![("s", 2, s), ("pr", 3, pr), ("big", 1, big)]
      }
   }
}

/// plain relations: many distinct tuples, each derived several times in one iteration (projections), and a join
mod plain {
   use super::*;
   ascent_par! {
      #![inter_rule_parallelism]
      pub struct Prog;
      relation e(u32, u32, u32);
      relation f(u32, u32);
      relation r(u32, u32);
      r(x, y) <-- e(x, y, _);
      relation q(u32);
      q(y) <-- e(_, y, _);
      q(y) <-- f(y, _);
      relation j(u32, u32);
      j(x, z) <-- r(x, y), f(y, z);
   }
   impl Case for Prog {
      fn construct() -> Self { Prog::default() }
      fn assign(&mut self, rl: &Rels, pm: usize) {
         self.e = rows3(rl, "e", pm).into_iter().collect();
         self.f = rows2(rl, "f", pm).into_iter().collect();
      }
      fn go(&mut self) { self.run() }
      fn dump(&self) -> Out {
         let mut r = vec![];
         for row in self.r.iter() {
            r.extend([row.0, row.1]);
         }
         let mut q = vec![];
         for row in self.q.iter() {
            q.push(row.0);
         }
         let mut j = vec![];
         for row in self.j.iter() {
            j.extend([row.0, row.1]);
         }
         vec![("r", 2, r), ("q", 1, q), ("j", 2, j)]
      }
   }
}

// ------------------------------------------------------------------ pools

fn make_pools(spec: &str) -> Vec<ThreadPool> {
   if spec == "m" {
      return vec![];
   }
   spec
      .split(':')
      .map(|n| ascent::rayon::ThreadPoolBuilder::new().num_threads(n.parse::<usize>().expect("pool size")).build().unwrap())
      .collect()
}

/// f with the pools installed one inside the other (none: on the calling thread, the global pool is current)
fn under<R: Send>(pools: &[ThreadPool], f: impl FnOnce() -> R + Send) -> R {
   match pools.split_first() {
      None => f(),
      Some((p, rest)) => p.install(|| under(rest, f)),
   }
}

fn drive<P: Case>(seed: u64, rels: &Rels, prefix: &str, construct: &str, steps: &[&str]) -> Vec<String> {
   let cpools = make_pools(construct);
   let mut p: P = under(&cpools, P::construct);
   let mut ms = vec![];
   for (i, st) in steps.iter().enumerate() {
      let (pm, pools) = st.split_once('@').expect("step = <permille>@<pools>");
      let pm = pm.parse::<usize>().expect("permille");
      let own;
      let rpools: &[ThreadPool] = if pools == "=" {
         &cpools
      } else {
         own = make_pools(pools);
         &own
      };
      p.assign(rels, pm);
      let t0 = std::time::Instant::now();
      let pr = &mut p;
      under(rpools, move || {
         ascent::verif_hooks::arm_perturb(if seed == 0 { 0 } else { seed + i as u64 });
         pr.go();
         ascent::verif_hooks::arm_perturb(0);
      });
      ms.push(t0.elapsed().as_millis().to_string());
      if pm >= 1000 {
         write_rels(&format!("{}.{}", prefix, i), &p.dump());
      }
   }
   ms
}

fn main() {
   panic::set_hook(Box::new(|_| {}));
   if let Some(g) = std::env::args().nth(1) {
      let g = g.parse::<usize>().expect("global pool size");
      if g > 0 {
         ascent::rayon::ThreadPoolBuilder::new().num_threads(g).build_global().unwrap();
      }
   }
   let stdin = io::stdin();
   let stdout = io::stdout();
   for line in stdin.lock().lines() {
      let line = line.unwrap();
      let f: Vec<&str> = line.split_whitespace().collect();
      if f.len() < 6 {
         continue;
      }
      let (name, seed) = (f[0], f[1].parse::<u64>().unwrap());
      let res = panic::catch_unwind(AssertUnwindSafe(|| {
         let rels = read_rels(f[2]);
         match name {
            "best" => drive::<best::Prog>(seed, &rels, f[3], f[4], &f[5..]),
            "two" => drive::<two::Prog>(seed, &rels, f[3], f[4], &f[5..]),
            "flow" => drive::<flow::Prog>(seed, &rels, f[3], f[4], &f[5..]),
            "part" => drive::<part::Prog>(seed, &rels, f[3], f[4], &f[5..]),
            "plain" => drive::<plain::Prog>(seed, &rels, f[3], f[4], &f[5..]),
            _ => panic!("unknown program {name}"),
         }
      }));
      let mut so = stdout.lock();
      match res {
         Ok(ms) => writeln!(so, "ok {}", ms.join(" ")).unwrap(),
         Err(e) => {
            let msg = if let Some(s) = e.downcast_ref::<&str>() { s.to_string() } else if let Some(s) = e.downcast_ref::<String>() { s.clone() } else { "?".to_string() };
            writeln!(so, "panic {}", msg.replace('\n', " ")).unwrap()
         },
      }
      so.flush().unwrap();
   }
}
