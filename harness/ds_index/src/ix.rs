//! The index types under test, instantiated the way generated code names them
//! (`ascent::rel::rel_ind!` / `rel_full_ind!` for relations, `ascent::internal::*` for lattices)
//! and driven only through the public traits of `ascent::internal`.
use std::hash::Hash;

use ascent::internal::{
   CLatIndex, CRelFullIndexWrite, CRelIndexRead, CRelIndexReadAll, CRelIndexWrite,
   Freezable, LatticeIndexType, RelFullIndexRead, RelFullIndexWrite, RelIndexCombined, RelIndexMerge,
   RelIndexRead, RelIndexReadAll, RelIndexWrite, RelNoIndexType, ToRelIndex,
};
use rayon::iter::ParallelIterator;

use crate::{Ctx, Unsup};

pub type It = Vec<(i64, Vec<i64>)>;

pub fn unsup<T>() -> T { std::panic::panic_any(Unsup) }

pub trait Key: Clone + Eq + Hash + Send + Sync {
   fn key(k: i64) -> Self;
   fn unkey(&self) -> i64;
}
impl Key for (i32,) {
   fn key(k: i64) -> Self { (k as i32,) }
   fn unkey(&self) -> i64 { self.0 as i64 }
}
impl Key for (i32, i32) {
   fn key(k: i64) -> Self { (k.div_euclid(3) as i32, k.rem_euclid(3) as i32) }
   fn unkey(&self) -> i64 { self.0 as i64 * 3 + self.1 as i64 }
}
pub trait Val: Clone + Eq + Hash + Send + Sync {
   fn val(v: i64) -> Self;
   fn unval(&self) -> i64;
}
impl Val for usize {
   fn val(v: i64) -> Self { v as usize }
   fn unval(&self) -> i64 { *self as i64 }
}
impl Val for (i32,) {
   fn val(v: i64) -> Self { (v as i32,) }
   fn unval(&self) -> i64 { self.0 as i64 }
}

#[allow(unused_variables)]
pub trait Ix: Sized + Send + Sync {
   fn new(ctx: &Ctx, slot: usize) -> Self;
   fn ins(&mut self, ctx: &Ctx, k: i64, v: i64) { unsup() }
   fn raw_cins(&self, k: i64, v: i64) { unsup() }
   fn cins(&self, ctx: &Ctx, k: i64, v: i64) { self.raw_cins(k, v) }
   fn np(&mut self, k: i64, v: i64) -> bool { unsup() }
   fn raw_cnp(&self, k: i64, v: i64) -> bool { unsup() }
   fn get(&self, k: i64) -> Option<Vec<i64>>;
   fn has(&self, k: i64) -> bool { unsup() }
   fn len(&self) -> usize;
   fn emp(&self) -> bool;
   fn iter(&self) -> It { unsup() }
   fn mv(from: &mut Self, to: &mut Self);
   fn merge(new: &mut Self, delta: &mut Self, total: &mut Self);
   fn frz(&mut self) {}
   fn unf(&mut self) {}
   fn comb_get(total: &Self, delta: &Self, k: i64) -> Option<Vec<i64>> { unsup() }
   fn comb_len(total: &Self, delta: &Self) -> usize { unsup() }
   fn comb_emp(total: &Self, delta: &Self) -> bool { unsup() }
   fn comb_iter(total: &Self, delta: &Self) -> It { unsup() }
}

fn sorted(mut v: Vec<i64>) -> Vec<i64> { v.sort(); v }
fn sorted_it(mut v: It) -> It {
   for e in v.iter_mut() { e.1.sort(); }
   v.sort();
   v
}
/// the rayon read API must agree (as multisets) with the sequential one
fn same_get(a: &Option<Vec<i64>>, b: Option<Vec<i64>>) {
   if a.clone().map(sorted) != b.map(sorted) { panic!("CDIFF: c_index_get differs from index_get"); }
}
fn same_iter(a: &It, b: It) {
   if sorted_it(a.clone()) != sorted_it(b) { panic!("CDIFF: c_iter_all differs from iter_all"); }
}

// ------------------------------------------------------------------ serial: hash map of vectors
type HvTy<V> = ascent::rel::rel_ind!(r, (i32, i32), [[0], [0, 1]], ser, (), [0], (i32,), V);
pub struct Hv<V>(HvTy<V>);

impl<V: Val> Ix for Hv<V> {
   fn new(_: &Ctx, _: usize) -> Self { Hv(Default::default()) }
   fn ins(&mut self, _: &Ctx, k: i64, v: i64) {
      let mut u = ();
      let mut w = self.0.to_rel_index_write(&mut u);
      RelIndexWrite::index_insert(&mut w, <(i32,)>::key(k), V::val(v));
   }
   fn get(&self, k: i64) -> Option<Vec<i64>> {
      let r = self.0.to_rel_index(&());
      let res = r.index_get(&<(i32,)>::key(k)).map(|it| it.map(|v| v.unval()).collect());
      res
   }
   fn len(&self) -> usize { let r = self.0.to_rel_index(&()); let n = r.len_estimate(); n }
   fn emp(&self) -> bool { let r = self.0.to_rel_index(&()); let b = r.is_empty(); b }
   fn iter(&self) -> It {
      let r = self.0.to_rel_index(&());
      let res = r.iter_all().map(|(k, vs)| (k.unkey(), vs.map(|v| v.unval()).collect())).collect();
      res
   }
   fn mv(from: &mut Self, to: &mut Self) {
      RelIndexMerge::move_index_contents(&mut from.0.to_rel_index_write(&mut ()), &mut to.0.to_rel_index_write(&mut ()));
   }
   fn merge(new: &mut Self, delta: &mut Self, total: &mut Self) {
      RelIndexMerge::merge_delta_to_total_new_to_delta(
         &mut new.0.to_rel_index_write(&mut ()),
         &mut delta.0.to_rel_index_write(&mut ()),
         &mut total.0.to_rel_index_write(&mut ()),
      );
   }
   fn comb_get(total: &Self, delta: &Self, k: i64) -> Option<Vec<i64>> {
      let (t, d) = (total.0.to_rel_index(&()), delta.0.to_rel_index(&()));
      let c = RelIndexCombined::new(&t, &d);
      let res = c.index_get(&<(i32,)>::key(k)).map(|it| it.map(|v| v.unval()).collect());
      res
   }
   fn comb_len(total: &Self, delta: &Self) -> usize {
      let (t, d) = (total.0.to_rel_index(&()), delta.0.to_rel_index(&()));
      let n = RelIndexCombined::new(&t, &d).len_estimate();
      n
   }
   fn comb_emp(total: &Self, delta: &Self) -> bool {
      let (t, d) = (total.0.to_rel_index(&()), delta.0.to_rel_index(&()));
      let b = RelIndexCombined::new(&t, &d).is_empty();
      b
   }
   fn comb_iter(total: &Self, delta: &Self) -> It {
      let (t, d) = (total.0.to_rel_index(&()), delta.0.to_rel_index(&()));
      let c = RelIndexCombined::new(&t, &d);
      let res = c.iter_all().map(|(k, vs)| (k.unkey(), vs.map(|v| v.unval()).collect())).collect();
      res
   }
}

// ------------------------------------------------------------------ serial: full index
type FmTy = ascent::rel::rel_full_ind!(r, (i32, i32), [[0, 1]], ser, (), (i32, i32), usize);
pub struct Fm(FmTy);
type K2 = (i32, i32);

impl Ix for Fm {
   fn new(_: &Ctx, _: usize) -> Self { Fm(Default::default()) }
   fn ins(&mut self, _: &Ctx, k: i64, v: i64) {
      let mut u = ();
      let mut w = self.0.to_rel_index_write(&mut u);
      RelIndexWrite::index_insert(&mut w, K2::key(k), v as usize);
   }
   fn np(&mut self, k: i64, v: i64) -> bool {
      let mut u = ();
      let mut w = self.0.to_rel_index_write(&mut u);
      RelFullIndexWrite::insert_if_not_present(&mut w, &K2::key(k), v as usize)
   }
   fn get(&self, k: i64) -> Option<Vec<i64>> {
      let r = self.0.to_rel_index(&());
      let res = r.index_get(&K2::key(k)).map(|it| it.map(|v| v.unval()).collect());
      res
   }
   fn has(&self, k: i64) -> bool { let r = self.0.to_rel_index(&()); let b = RelFullIndexRead::contains_key(&r, &K2::key(k)); b }
   fn len(&self) -> usize { let r = self.0.to_rel_index(&()); let n = r.len_estimate(); n }
   fn emp(&self) -> bool { let r = self.0.to_rel_index(&()); let b = RelIndexRead::is_empty(&r); b }
   fn iter(&self) -> It {
      let r = self.0.to_rel_index(&());
      let res = r.iter_all().map(|(k, vs)| (k.unkey(), vs.map(|v| v.unval()).collect())).collect();
      res
   }
   fn mv(from: &mut Self, to: &mut Self) {
      RelIndexMerge::move_index_contents(&mut from.0.to_rel_index_write(&mut ()), &mut to.0.to_rel_index_write(&mut ()));
   }
   fn merge(new: &mut Self, delta: &mut Self, total: &mut Self) {
      RelIndexMerge::merge_delta_to_total_new_to_delta(
         &mut new.0.to_rel_index_write(&mut ()),
         &mut delta.0.to_rel_index_write(&mut ()),
         &mut total.0.to_rel_index_write(&mut ()),
      );
   }
   fn comb_get(total: &Self, delta: &Self, k: i64) -> Option<Vec<i64>> {
      let (t, d) = (total.0.to_rel_index(&()), delta.0.to_rel_index(&()));
      let c = RelIndexCombined::new(&t, &d);
      let res = c.index_get(&K2::key(k)).map(|it| it.map(|v| v.unval()).collect());
      res
   }
   fn comb_len(total: &Self, delta: &Self) -> usize {
      let (t, d) = (total.0.to_rel_index(&()), delta.0.to_rel_index(&()));
      let n = RelIndexCombined::new(&t, &d).len_estimate();
      n
   }
   fn comb_emp(total: &Self, delta: &Self) -> bool {
      let (t, d) = (total.0.to_rel_index(&()), delta.0.to_rel_index(&()));
      let b = RelIndexCombined::new(&t, &d).is_empty();
      b
   }
   fn comb_iter(total: &Self, delta: &Self) -> It {
      let (t, d) = (total.0.to_rel_index(&()), delta.0.to_rel_index(&()));
      let c = RelIndexCombined::new(&t, &d);
      let res = c.iter_all().map(|(k, vs)| (k.unkey(), vs.map(|v| v.unval()).collect())).collect();
      res
   }
}

// ------------------------------------------------------------------ serial: lattice index (used directly, as generated code does)
pub struct Lat(LatticeIndexType<(i32,), usize>);

impl Ix for Lat {
   fn new(_: &Ctx, _: usize) -> Self { Lat(Default::default()) }
   fn ins(&mut self, _: &Ctx, k: i64, v: i64) { RelIndexWrite::index_insert(&mut self.0, <(i32,)>::key(k), v as usize); }
   fn get(&self, k: i64) -> Option<Vec<i64>> {
      let r = &self.0;
      let res = RelIndexRead::index_get(&r, &<(i32,)>::key(k)).map(|it| it.map(|v| v.unval()).collect());
      res
   }
   fn len(&self) -> usize { RelIndexRead::len_estimate(&self.0) }
   fn emp(&self) -> bool { RelIndexRead::is_empty(&self.0) }
   fn iter(&self) -> It {
      RelIndexReadAll::iter_all(&self.0).map(|(k, vs)| (k.unkey(), vs.map(|v| v.unval()).collect())).collect()
   }
   fn mv(from: &mut Self, to: &mut Self) { RelIndexMerge::move_index_contents(&mut from.0, &mut to.0); }
   fn merge(new: &mut Self, delta: &mut Self, total: &mut Self) {
      RelIndexMerge::merge_delta_to_total_new_to_delta(&mut &mut new.0, &mut &mut delta.0, &mut &mut total.0);
   }
   fn comb_get(total: &Self, delta: &Self, k: i64) -> Option<Vec<i64>> {
      let (t, d) = (&total.0, &delta.0);
      let c = RelIndexCombined::new(&t, &d);
      let res = c.index_get(&<(i32,)>::key(k)).map(|it| it.map(|v| v.unval()).collect());
      res
   }
   fn comb_len(total: &Self, delta: &Self) -> usize {
      let (t, d) = (&total.0, &delta.0);
      let n = RelIndexCombined::new(&t, &d).len_estimate();
      n
   }
   fn comb_emp(total: &Self, delta: &Self) -> bool {
      let (t, d) = (&total.0, &delta.0);
      let b = RelIndexCombined::new(&t, &d).is_empty();
      b
   }
   fn comb_iter(total: &Self, delta: &Self) -> It {
      let (t, d) = (&total.0, &delta.0);
      let c = RelIndexCombined::new(&t, &d);
      let res = c.iter_all().map(|(k, vs)| (k.unkey(), vs.map(|v| v.unval()).collect())).collect();
      res
   }
}

// ------------------------------------------------------------------ serial: no index (write + merge traits only; the Vec is read directly)
pub struct Ni(RelNoIndexType);

impl Ix for Ni {
   fn new(_: &Ctx, _: usize) -> Self { Ni(Default::default()) }
   fn ins(&mut self, _: &Ctx, _k: i64, v: i64) { RelIndexWrite::index_insert(&mut self.0, (), v as usize); }
   fn get(&self, _k: i64) -> Option<Vec<i64>> { Some(self.0.iter().map(|v| *v as i64).collect()) }
   fn len(&self) -> usize { self.0.len() }
   fn emp(&self) -> bool { self.0.is_empty() }
   fn mv(from: &mut Self, to: &mut Self) { RelIndexMerge::move_index_contents(&mut from.0, &mut to.0); }
   fn merge(new: &mut Self, delta: &mut Self, total: &mut Self) {
      RelIndexMerge::merge_delta_to_total_new_to_delta(&mut new.0, &mut delta.0, &mut total.0);
   }
}

// ------------------------------------------------------------------ concurrent: CRelIndex
type CriTy = ascent::rel::rel_ind!(r, (i32, i32), [[0], [0, 1]], par, (), [0], (i32,), usize);
pub struct Cri(CriTy);
type K1 = (i32,);

macro_rules! conc_common {
   ($kt:ty) => {
      fn mv(from: &mut Self, to: &mut Self) {
         RelIndexMerge::move_index_contents(&mut from.0.to_rel_index_write(&mut ()), &mut to.0.to_rel_index_write(&mut ()));
      }
      fn merge(new: &mut Self, delta: &mut Self, total: &mut Self) {
         RelIndexMerge::merge_delta_to_total_new_to_delta(
            &mut new.0.to_rel_index_write(&mut ()),
            &mut delta.0.to_rel_index_write(&mut ()),
            &mut total.0.to_rel_index_write(&mut ()),
         );
      }
      fn frz(&mut self) { self.0.freeze(); }
      fn unf(&mut self) { self.0.unfreeze(); }
      fn len(&self) -> usize { let r = self.0.to_rel_index(&()); let n = r.len_estimate(); n }
      fn emp(&self) -> bool { let r = self.0.to_rel_index(&()); let b = RelIndexRead::is_empty(&r); b }
      fn comb_len(total: &Self, delta: &Self) -> usize {
         let (t, d) = (total.0.to_rel_index(&()), delta.0.to_rel_index(&()));
         let n = RelIndexCombined::new(&t, &d).len_estimate();
         n
      }
      fn comb_emp(total: &Self, delta: &Self) -> bool {
         let (t, d) = (total.0.to_rel_index(&()), delta.0.to_rel_index(&()));
         let b = RelIndexCombined::new(&t, &d).is_empty();
         b
      }
   };
}

impl Ix for Cri {
   // created inside the pool of its slot (n0 n1 n2), like Cni: the shard count must not depend on it
   fn new(ctx: &Ctx, slot: usize) -> Self { Cri(ctx.pool(ctx.n[slot]).install(Default::default)) }
   fn ins(&mut self, _: &Ctx, k: i64, v: i64) {
      let mut u = ();
      let mut w = self.0.to_rel_index_write(&mut u);
      RelIndexWrite::index_insert(&mut w, K1::key(k), v as usize);
   }
   fn raw_cins(&self, k: i64, v: i64) {
      let w = ascent::internal::ToRelIndex0::to_c_rel_index_write(&self.0, &());
      CRelIndexWrite::index_insert(&w, K1::key(k), v as usize);
   }
   fn get(&self, k: i64) -> Option<Vec<i64>> {
      let r = self.0.to_rel_index(&());
      let res: Option<Vec<i64>> = r.index_get(&K1::key(k)).map(|it| it.map(|v| v.unval()).collect());
      let c: Option<Vec<i64>> = r.c_index_get(&K1::key(k)).map(|it| it.map(|v| v.unval()).collect());
      same_get(&res, c);
      res
   }
   fn iter(&self) -> It {
      let r = self.0.to_rel_index(&());
      let res: It = r.iter_all().map(|(k, vs)| (k.unkey(), vs.map(|v| v.unval()).collect())).collect();
      let c: It = r.c_iter_all().map(|(k, vs)| (k.unkey(), vs.map(|v| v.unval()).collect())).collect();
      same_iter(&res, c);
      res
   }
   fn comb_get(total: &Self, delta: &Self, k: i64) -> Option<Vec<i64>> {
      let (t, d) = (total.0.to_rel_index(&()), delta.0.to_rel_index(&()));
      let cmb = RelIndexCombined::new(&t, &d);
      let res: Option<Vec<i64>> = cmb.index_get(&K1::key(k)).map(|it| it.map(|v| v.unval()).collect());
      let c: Option<Vec<i64>> = cmb.c_index_get(&K1::key(k)).map(|it| it.map(|v| v.unval()).collect());
      same_get(&res, c);
      res
   }
   fn comb_iter(total: &Self, delta: &Self) -> It {
      let (t, d) = (total.0.to_rel_index(&()), delta.0.to_rel_index(&()));
      let cmb = RelIndexCombined::new(&t, &d);
      let res: It = cmb.iter_all().map(|(k, vs)| (k.unkey(), vs.map(|v| v.unval()).collect())).collect();
      let c: It = cmb.c_iter_all().map(|(k, vs)| (k.unkey(), vs.map(|v| v.unval()).collect())).collect();
      same_iter(&res, c);
      res
   }
   conc_common!(K1);
}

// ------------------------------------------------------------------ concurrent: CRelFullIndex
type CfiTy = ascent::rel::rel_full_ind!(r, (i32, i32), [[0, 1]], par, (), (i32, i32), usize);
pub struct Cfi(CfiTy);

impl Ix for Cfi {
   // created inside the pool of its slot (n0 n1 n2), like Cni: the shard count must not depend on it
   fn new(ctx: &Ctx, slot: usize) -> Self { Cfi(ctx.pool(ctx.n[slot]).install(Default::default)) }
   fn ins(&mut self, _: &Ctx, k: i64, v: i64) {
      let mut u = ();
      let mut w = self.0.to_rel_index_write(&mut u);
      RelIndexWrite::index_insert(&mut w, K2::key(k), v as usize);
   }
   fn raw_cins(&self, k: i64, v: i64) {
      let w = ascent::internal::ToRelIndex0::to_c_rel_index_write(&self.0, &());
      CRelIndexWrite::index_insert(&w, K2::key(k), v as usize);
   }
   fn np(&mut self, k: i64, v: i64) -> bool {
      let mut u = ();
      let mut w = self.0.to_rel_index_write(&mut u);
      RelFullIndexWrite::insert_if_not_present(&mut w, &K2::key(k), v as usize)
   }
   fn raw_cnp(&self, k: i64, v: i64) -> bool {
      let w = ascent::internal::ToRelIndex0::to_c_rel_index_write(&self.0, &());
      CRelFullIndexWrite::insert_if_not_present(&w, &K2::key(k), v as usize)
   }
   fn has(&self, k: i64) -> bool { let r = self.0.to_rel_index(&()); let b = RelFullIndexRead::contains_key(&r, &K2::key(k)); b }
   fn get(&self, k: i64) -> Option<Vec<i64>> {
      let r = self.0.to_rel_index(&());
      let res: Option<Vec<i64>> = r.index_get(&K2::key(k)).map(|it| it.map(|v| v.unval()).collect());
      let c: Option<Vec<i64>> = r.c_index_get(&K2::key(k)).map(|it| it.map(|v| v.unval()).collect());
      same_get(&res, c);
      res
   }
   fn iter(&self) -> It {
      let r = self.0.to_rel_index(&());
      let res: It = r.iter_all().map(|(k, vs)| (k.unkey(), vs.map(|v| v.unval()).collect())).collect();
      let c: It = r.c_iter_all().map(|(k, vs)| (k.unkey(), vs.map(|v| v.unval()).collect())).collect();
      same_iter(&res, c);
      res
   }
   fn comb_get(total: &Self, delta: &Self, k: i64) -> Option<Vec<i64>> {
      let (t, d) = (total.0.to_rel_index(&()), delta.0.to_rel_index(&()));
      let cmb = RelIndexCombined::new(&t, &d);
      let res: Option<Vec<i64>> = cmb.index_get(&K2::key(k)).map(|it| it.map(|v| v.unval()).collect());
      let c: Option<Vec<i64>> = cmb.c_index_get(&K2::key(k)).map(|it| it.map(|v| v.unval()).collect());
      same_get(&res, c);
      res
   }
   fn comb_iter(total: &Self, delta: &Self) -> It {
      // the sequential iter_all of CRelFullIndex yields owned values, the parallel one references
      let (t, d) = (total.0.to_rel_index(&()), delta.0.to_rel_index(&()));
      let cmb = RelIndexCombined::new(&t, &d);
      let res: It = cmb.iter_all().map(|(k, vs)| (k.unkey(), vs.map(|v| v.unval()).collect())).collect();
      let c: It = cmb.c_iter_all().map(|(k, vs)| (k.unkey(), vs.map(|v| v.unval()).collect())).collect();
      same_iter(&res, c);
      res
   }
   conc_common!(K2);
}

// ------------------------------------------------------------------ concurrent: CLatIndex (the non-key indices of a lattice relation under ascent_par!, since /repo d5edf35)
pub struct Clat(CLatIndex<(i32,), usize>);

impl Ix for Clat {
   // created inside the pool of its slot (n0 n1 n2), like Cni: the shard count must not depend on it
   fn new(ctx: &Ctx, slot: usize) -> Self { Clat(ctx.pool(ctx.n[slot]).install(Default::default)) }
   fn ins(&mut self, _: &Ctx, k: i64, v: i64) { RelIndexWrite::index_insert(&mut self.0, K1::key(k), v as usize); }
   fn raw_cins(&self, k: i64, v: i64) { CRelIndexWrite::index_insert(&self.0, K1::key(k), v as usize); }
   fn get(&self, k: i64) -> Option<Vec<i64>> {
      let r = &self.0;
      let res: Option<Vec<i64>> = RelIndexRead::index_get(r, &K1::key(k)).map(|it| it.map(|v| v.unval()).collect());
      let c: Option<Vec<i64>> = r.c_index_get(&K1::key(k)).map(|it| it.map(|v| v.unval()).collect());
      same_get(&res, c);
      res
   }
   fn iter(&self) -> It {
      let r = &self.0;
      let res: It = RelIndexReadAll::iter_all(r).map(|(k, vs)| (k.unkey(), vs.map(|v| v.unval()).collect())).collect();
      let c: It = r.c_iter_all().map(|(k, vs)| (k.unkey(), vs.map(|v| v.unval()).collect())).collect();
      same_iter(&res, c);
      res
   }
   fn mv(from: &mut Self, to: &mut Self) { RelIndexMerge::move_index_contents(&mut from.0, &mut to.0); }
   fn merge(new: &mut Self, delta: &mut Self, total: &mut Self) {
      RelIndexMerge::merge_delta_to_total_new_to_delta(&mut new.0, &mut delta.0, &mut total.0);
   }
   fn frz(&mut self) { self.0.freeze(); }
   fn unf(&mut self) { self.0.unfreeze(); }
   fn len(&self) -> usize { RelIndexRead::len_estimate(&self.0) }
   fn emp(&self) -> bool { RelIndexRead::is_empty(&self.0) }
   fn comb_get(total: &Self, delta: &Self, k: i64) -> Option<Vec<i64>> {
      let cmb = RelIndexCombined::new(&total.0, &delta.0);
      let res: Option<Vec<i64>> = cmb.index_get(&K1::key(k)).map(|it| it.map(|v| v.unval()).collect());
      let c: Option<Vec<i64>> = cmb.c_index_get(&K1::key(k)).map(|it| it.map(|v| v.unval()).collect());
      same_get(&res, c);
      res
   }
   fn comb_len(total: &Self, delta: &Self) -> usize { RelIndexCombined::new(&total.0, &delta.0).len_estimate() }
   fn comb_emp(total: &Self, delta: &Self) -> bool { RelIndexCombined::new(&total.0, &delta.0).is_empty() }
   fn comb_iter(total: &Self, delta: &Self) -> It {
      let cmb = RelIndexCombined::new(&total.0, &delta.0);
      let res: It = cmb.iter_all().map(|(k, vs)| (k.unkey(), vs.map(|v| v.unval()).collect())).collect();
      let c: It = cmb.c_iter_all().map(|(k, vs)| (k.unkey(), vs.map(|v| v.unval()).collect())).collect();
      same_iter(&res, c);
      res
   }
}

// ------------------------------------------------------------------ concurrent: CRelNoIndex
type CniTy = ascent::rel::rel_ind!(r, (i32, i32), [[], [0, 1]], par, (), [], (), usize);
pub struct Cni(CniTy);

impl Ix for Cni {
   /// created inside a pool of the size given for the slot (`Default` reads `rayon::current_num_threads()`)
   fn new(ctx: &Ctx, slot: usize) -> Self { Cni(ctx.pool(ctx.n[slot]).install(Default::default)) }
   /// `k` = index of the worker thread of the run pool that performs the insert
   fn ins(&mut self, ctx: &Ctx, k: i64, v: i64) {
      let me = std::sync::Mutex::new(&mut self.0);
      ctx.on_thread(k as usize, || {
         let mut g = me.lock().unwrap();
         let mut u = ();
      let mut w = g.to_rel_index_write(&mut u);
         RelIndexWrite::index_insert(&mut w, (), v as usize);
      });
   }
   fn cins(&self, ctx: &Ctx, k: i64, v: i64) { ctx.on_thread(k as usize, || self.raw_cins(k, v)); }
   fn raw_cins(&self, _k: i64, v: i64) {
      let w = ascent::internal::ToRelIndex0::to_c_rel_index_write(&self.0, &());
      CRelIndexWrite::index_insert(&w, (), v as usize);
   }
   fn get(&self, _k: i64) -> Option<Vec<i64>> {
      let r = self.0.to_rel_index(&());
      let res: Option<Vec<i64>> = r.index_get(&()).map(|it| it.map(|v| v.unval()).collect());
      let c: Option<Vec<i64>> = r.c_index_get(&()).map(|it| it.map(|v| v.unval()).collect());
      same_get(&res, c);
      res
   }
   fn iter(&self) -> It {
      let r = self.0.to_rel_index(&());
      let res: It = r.iter_all().map(|(_, vs)| (0, vs.map(|v| v.unval()).collect())).collect();
      let c: It = r.c_iter_all().map(|(_, vs)| (0, vs.map(|v| v.unval()).collect())).collect();
      same_iter(&res, c);
      res
   }
   fn comb_get(total: &Self, delta: &Self, _k: i64) -> Option<Vec<i64>> {
      let (t, d) = (total.0.to_rel_index(&()), delta.0.to_rel_index(&()));
      let cmb = RelIndexCombined::new(&t, &d);
      let res: Option<Vec<i64>> = cmb.index_get(&()).map(|it| it.map(|v| v.unval()).collect());
      let c: Option<Vec<i64>> = cmb.c_index_get(&()).map(|it| it.map(|v| v.unval()).collect());
      same_get(&res, c);
      res
   }
   fn comb_iter(total: &Self, delta: &Self) -> It {
      let (t, d) = (total.0.to_rel_index(&()), delta.0.to_rel_index(&()));
      let cmb = RelIndexCombined::new(&t, &d);
      let res: It = cmb.iter_all().map(|(_, vs)| (0, vs.map(|v| v.unval()).collect())).collect();
      let c: It = cmb.c_iter_all().map(|(_, vs)| (0, vs.map(|v| v.unval()).collect())).collect();
      same_iter(&res, c);
      res
   }
   conc_common!(());
}
