//! ds_index (C19): interprets operation histories against the real index types of
//! `ascent::internal` and prints canonical answers, one result line per history.
//!
//! usage: ds_index p<N>      N = size of the rayon pool in which `shards_count()` is first evaluated
//!                           (a process constant: #DashMap shards = (4 N).next_power_of_two())
//! stdin, one case per line:
//!   shards <cri|cfi|clat> k1 k2 ...            -> "<#shards> s1 s2 ..."  shard of each key in the real DashMap
//!   <type> <P> <n0> <n1> <n2> op op ...        type in hv hvt fm lat ni cri cfi clat cni
//!        P  = size of the rayon pool whose worker threads perform the serial inserts of `cni`
//!        n0 n1 n2 = sizes of the pools in which slots 0 (new) 1 (delta) 2 (total) are created (cni cri cfi clat)
//!   ops (comma separated fields; s = slot):
//!     ins,s,k,v  cins,s,k,v  np,s,k,v  cnp,s,k,v      writes (RelIndexWrite / CRelIndexWrite / RelFullIndexWrite / CRelFullIndexWrite)
//!     get,s,k  has,s,k  len,s  emp,s  iter,s          reads
//!     move,a,b   merge   frz,s   unf,s
//!     cget,k  clen  cemp  citer                        RelIndexCombined(total, delta)
//!     par,s,mode,seed,script                           concurrent phase; mode r1 r2 r3 r8 (rayon pool) | std (threads)
//!        script = task/task/...; task = item+item+...; item = i:k:v (index_insert) | n:k:v (insert_if_not_present)
//! usage: ds_index p<N> contend <type> <npool> <mode> <T> <m> <nkeys> <kind> <vdom> <pre>     one big concurrent fill (contend.rs)
//! output: results of the read operations separated by " ; ":
//!   g none | g - | g v1,v2   b 0|1   n <num>   it k=v1,v2|k=...   w k:winners,... @ worker index of each task
//!   then "panic"/"unsup" ends the line
use std::io::{self, BufRead, Write};
use std::panic::{self, AssertUnwindSafe};
use std::sync::Mutex;

mod contend;
mod ix;
use ix::*;

pub struct Unsup;

pub struct Ctx {
   pools: Mutex<std::collections::HashMap<usize, std::sync::Arc<rayon::ThreadPool>>>,
   pub p: usize,
   pub n: [usize; 3],
}
impl Ctx {
   pub fn pool(&self, n: usize) -> std::sync::Arc<rayon::ThreadPool> {
      let mut g = self.pools.lock().unwrap();
      g.entry(n).or_insert_with(|| std::sync::Arc::new(rayon::ThreadPoolBuilder::new().num_threads(n).build().unwrap())).clone()
   }
   /// run `f` on worker `tid` of the run pool
   pub fn on_thread<R: Send>(&self, tid: usize, f: impl FnOnce() -> R + Send) -> R {
      let pool = self.pool(self.p);
      assert!(tid < self.p, "thread index outside the run pool");
      let cell = Mutex::new(Some(f));
      let out = Mutex::new(None);
      pool.broadcast(|c| {
         if c.index() == tid {
            let f = cell.lock().unwrap().take().unwrap();
            let r = f();
            *out.lock().unwrap() = Some(r);
         }
      });
      out.into_inner().unwrap().unwrap()
   }
}

fn fmt_vals(v: &[i64]) -> String {
   if v.is_empty() { "-".into() } else { v.iter().map(|x| x.to_string()).collect::<Vec<_>>().join(",") }
}
fn fmt_get(r: &Option<Vec<i64>>) -> String {
   match r { None => "g none".into(), Some(v) => format!("g {}", fmt_vals(v)) }
}
fn fmt_iter(mut it: It) -> String {
   it.sort();
   format!("it {}", it.iter().map(|(k, v)| format!("{}={}", k, fmt_vals(v))).collect::<Vec<_>>().join("|"))
}

type Task = Vec<(char, i64, i64)>;
fn parse_script(s: &str) -> Vec<Task> {
   if s == "-" { return vec![]; }
   s.split('/')
      .map(|t| {
         if t.is_empty() { return vec![]; }
         t.split('+')
            .map(|it| {
               let f: Vec<&str> = it.split(':').collect();
               (f[0].chars().next().unwrap(), f[1].parse().unwrap(), f[2].parse().unwrap())
            })
            .collect()
      })
      .collect()
}

fn jitter(seed: u64, ti: usize, i: usize) {
   let mut x = seed.wrapping_mul(0x9E3779B97F4A7C15).wrapping_add((ti as u64) << 32 | i as u64);
   x ^= x >> 29;
   x = x.wrapping_mul(0xBF58476D1CE4E5B9);
   x ^= x >> 32;
   for _ in 0..(x % 4) { std::thread::yield_now(); }
}

fn run_task<T: Ix>(x: &T, ti: usize, task: &Task, seed: u64, wins: &Mutex<Vec<(i64, bool)>>, tids: &Mutex<Vec<usize>>) {
   // which rayon worker runs this task (decides the shard of a CRelNoIndex insert); a task never migrates
   tids.lock().unwrap()[ti] = rayon::current_thread_index().unwrap_or(0);
   for (i, &(kind, k, v)) in task.iter().enumerate() {
      jitter(seed, ti, i);
      match kind {
         'i' => x.raw_cins(k, v),
         'n' => { let b = x.raw_cnp(k, v); wins.lock().unwrap().push((k, b)); },
         _ => panic!("bad item"),
      }
   }
}

fn par_phase<T: Ix>(x: &T, ctx: &Ctx, mode: &str, seed: u64, tasks: &[Task]) -> String {
   let wins: Mutex<Vec<(i64, bool)>> = Mutex::new(vec![]);
   let tids: Mutex<Vec<usize>> = Mutex::new(vec![0; tasks.len()]);
   if mode == "std" {
      let bar = std::sync::Barrier::new(tasks.len().max(1));
      std::thread::scope(|s| {
         let hs: Vec<_> = tasks.iter().enumerate().map(|(ti, task)| {
            let (bar, wins, tids) = (&bar, &wins, &tids);
            s.spawn(move || { bar.wait(); run_task(x, ti, task, seed, wins, tids) })
         }).collect();
         let mut failed = false;
         for h in hs { if h.join().is_err() { failed = true; } }
         if failed { panic!("worker panicked"); }
      });
   } else {
      let n: usize = mode[1..].parse().unwrap();
      let pool = ctx.pool(n);
      pool.scope(|s| {
         for (ti, task) in tasks.iter().enumerate() {
            let (wins, tids) = (&wins, &tids);
            s.spawn(move |_| run_task(x, ti, task, seed, wins, tids));
         }
      });
   }
   let mut per: std::collections::BTreeMap<i64, usize> = Default::default();
   for (k, b) in wins.into_inner().unwrap() { *per.entry(k).or_insert(0) += b as usize; }
   format!(
      "w {} @ {}",
      per.iter().map(|(k, c)| format!("{}:{}", k, c)).collect::<Vec<_>>().join(","),
      tids.into_inner().unwrap().iter().map(|t| t.to_string()).collect::<Vec<_>>().join(",")
   )
}

fn run_history<T: Ix>(ctx: &Ctx, ops: &[&str], out: &mut Vec<String>) {
   let mut st: Vec<T> = (0..3).map(|s| T::new(ctx, s)).collect();
   fn two<T>(v: &mut [T], a: usize, b: usize) -> (&mut T, &mut T) {
      assert!(a != b);
      if a < b { let (x, y) = v.split_at_mut(b); (&mut x[a], &mut y[0]) } else { let (x, y) = v.split_at_mut(a); (&mut y[0], &mut x[b]) }
   }
   for op in ops {
      let f: Vec<&str> = op.split(',').collect();
      let num = |i: usize| -> i64 { f[i].parse().unwrap() };
      let slot = |i: usize| -> usize { f[i].parse().unwrap() };
      match f[0] {
         "ins" => st[slot(1)].ins(ctx, num(2), num(3)),
         "cins" => st[slot(1)].cins(ctx, num(2), num(3)),
         "np" => { let b = st[slot(1)].np(num(2), num(3)); out.push(format!("b {}", b as u8)); },
         "cnp" => { let b = st[slot(1)].raw_cnp(num(2), num(3)); out.push(format!("b {}", b as u8)); },
         "get" => out.push(fmt_get(&st[slot(1)].get(num(2)))),
         "has" => out.push(format!("b {}", st[slot(1)].has(num(2)) as u8)),
         "len" => out.push(format!("n {}", st[slot(1)].len())),
         "emp" => out.push(format!("b {}", st[slot(1)].emp() as u8)),
         "iter" => out.push(fmt_iter(st[slot(1)].iter())),
         "move" => { let (a, b) = two(&mut st, slot(1), slot(2)); T::mv(a, b) },
         "merge" => {
            let (n, rest) = st.split_at_mut(1);
            let (d, t) = rest.split_at_mut(1);
            T::merge(&mut n[0], &mut d[0], &mut t[0]);
         },
         "frz" => st[slot(1)].frz(),
         "unf" => st[slot(1)].unf(),
         "cget" => out.push(fmt_get(&T::comb_get(&st[2], &st[1], num(1)))),
         "clen" => out.push(format!("n {}", T::comb_len(&st[2], &st[1]))),
         "cemp" => out.push(format!("b {}", T::comb_emp(&st[2], &st[1]) as u8)),
         "citer" => out.push(fmt_iter(T::comb_iter(&st[2], &st[1]))),
         "par" => {
            let tasks = parse_script(f[4]);
            let r = par_phase(&st[slot(1)], ctx, f[2], f[3].parse().unwrap(), &tasks);
            out.push(r);
         },
         _ => panic!("unknown op {}", f[0]),
      }
   }
}

fn shards_line(toks: &[&str]) -> String {
   use ascent::internal::{CLatIndex, CRelFullIndex, CRelIndex};
   let keys: Vec<i64> = toks[2..].iter().map(|t| t.parse().unwrap()).collect();
   let (n, v): (usize, Vec<usize>) = match toks[1] {
      "cri" => {
         let x: CRelIndex<(i32,), usize> = Default::default();
         let dm = x.unwrap_unfrozen();
         (dm.shards().len(), keys.iter().map(|&k| dm.determine_shard(x.hash_usize(&<(i32,)>::key(k)))).collect())
      },
      "cfi" => {
         let x: CRelFullIndex<(i32, i32), usize> = Default::default();
         let dm = x.unwrap_unfrozen();
         (dm.shards().len(), keys.iter().map(|&k| dm.determine_shard(x.hash_usize(&<(i32, i32)>::key(k)))).collect())
      },
      "clat" => {
         let x: CLatIndex<(i32,), usize> = Default::default();
         let dm = x.unwrap_unfrozen();
         (dm.shards().len(), keys.iter().map(|&k| dm.determine_shard(x.hash_usize(&<(i32,)>::key(k)))).collect())
      },
      _ => panic!("shards: type"),
   };
   format!("{} {}", n, v.iter().map(|s| s.to_string()).collect::<Vec<_>>().join(" "))
}

fn main() {
   let suite = std::env::args().nth(1).expect("suite p<N>");
   let first: usize = suite[1..].parse().expect("p<N>");
   panic::set_hook(Box::new(|_| {}));
   let pools = Mutex::new(std::collections::HashMap::new());
   let mut ctx = Ctx { pools, p: 1, n: [1, 1, 1] };
   // fix the process-wide DashMap shard count
   let shards = ctx.pool(first).install(ascent::internal::shards_count);
   assert_eq!(shards, (first * 4).next_power_of_two());
   if std::env::args().nth(2).as_deref() == Some("contend") {
      // CONTENTION mode: one big concurrent fill per process (see contend.rs)
      let args: Vec<String> = std::env::args().skip(3).collect();
      std::process::exit(contend::main(&mut ctx, &args));
   }
   let stdin = io::stdin();
   let stdout = io::stdout();
   let mut outp = io::BufWriter::new(stdout.lock());
   for line in stdin.lock().lines() {
      let line = line.unwrap();
      let line = line.trim();
      if line.is_empty() { continue; }
      let toks: Vec<&str> = line.split_whitespace().collect();
      if toks[0] == "shards" {
         writeln!(outp, "{}", shards_line(&toks)).unwrap();
         continue;
      }
      ctx.p = toks[1].parse().unwrap();
      for i in 0..3 { ctx.n[i] = toks[2 + i].parse().unwrap(); }
      let ops = &toks[5..];
      let mut out: Vec<String> = vec![];
      let res = panic::catch_unwind(AssertUnwindSafe(|| match toks[0] {
         "hv" => run_history::<Hv<usize>>(&ctx, ops, &mut out),
         "hvt" => run_history::<Hv<(i32,)>>(&ctx, ops, &mut out),
         "fm" => run_history::<Fm>(&ctx, ops, &mut out),
         "lat" => run_history::<Lat>(&ctx, ops, &mut out),
         "ni" => run_history::<Ni>(&ctx, ops, &mut out),
         "cri" => run_history::<Cri>(&ctx, ops, &mut out),
         "cfi" => run_history::<Cfi>(&ctx, ops, &mut out),
         "clat" => run_history::<Clat>(&ctx, ops, &mut out),
         "cni" => run_history::<Cni>(&ctx, ops, &mut out),
         _ => panic!("unknown type"),
      }));
      if let Err(e) = res {
         out.push(if e.downcast_ref::<Unsup>().is_some() { "unsup".into() } else { "panic".into() });
      }
      writeln!(outp, "{}", out.join(" ; ")).unwrap();
   }
}
