//! CONTENTION mode of ds_index (C19): ONE big concurrent fill of one concurrent index value per process,
//! then freeze and a complete read-out.  A pure driver: nothing is checked here (apart from the
//! `c_index_get` / `c_iter_all` = `index_get` / `iter_all` comparison built into `Ix::get` / `Ix::iter`),
//! the multiset / set / map specification is evaluated by gen/c19_contention.py from the case parameters.
//!
//! usage: ds_index p<S> contend <type> <npool> <mode> <T> <m> <nkeys> <kind> <vdom> <pre>
//!    S      pool size that fixes the process-wide DashMap shard count ((4 S).next_power_of_two())
//!    type   cri | cfi | clat | cni
//!    npool  size of the rayon pool inside which the index value is created (CRelNoIndex: its number of shards)
//!    mode   std  = T plain threads released together by a barrier (none of them a rayon worker)
//!           ray  = the T workers of a rayon pool of T threads (`broadcast`: every worker runs one task)
//!    T, m   number of inserting threads, inserts per thread; item j of thread ti has number x = ti*m + j
//!    kind   i = index_insert(key = x mod nkeys, value = x mod vdom (x itself when vdom = 0))
//!           n = insert_if_not_present(key = j mod nkeys, value = x): all threads walk the same key sequence
//!    pre    kind i: `pre` serial inserts x = T*m .. T*m+pre-1 first;  kind n: keys 0..pre-1 inserted first (value -1-k)
//! stdout: lines  `w x1,x2,..` (numbers x whose insert_if_not_present returned true)  `n <len_estimate>`  `b <is_empty>`
//!         `g ..` for keys 0..min(nkeys,8) (one past the last key included)   `it k=v,..|..` (complete iteration)
//!         or a last line `panic` / `unsup`.  A crash of the process (signal / abort) is the caller's to observe.
use std::sync::{Barrier, Mutex};

use crate::ix::*;
use crate::{fmt_get, fmt_iter, Ctx, Unsup};

pub struct Params {
   pub cni: bool,
   pub npool: usize,
   pub mode: String,
   pub t: usize,
   pub m: usize,
   pub nkeys: i64,
   pub kind: char,
   pub vdom: i64,
   pub pre: usize,
}

fn fill<T: Ix>(x: &T, ctx: &Ctx, p: &Params) -> Vec<i64> {
   let wins: Mutex<Vec<i64>> = Mutex::new(vec![]);
   let bar = Barrier::new(p.t);
   let body = |ti: usize| {
      let mut mine = vec![];
      bar.wait();
      for j in 0..p.m {
         let xv = (ti * p.m + j) as i64;
         match p.kind {
            'i' => x.raw_cins(xv.rem_euclid(p.nkeys), if p.vdom > 0 { xv % p.vdom } else { xv }),
            'n' => {
               if x.raw_cnp((j as i64) % p.nkeys, xv) {
                  mine.push(xv)
               }
            },
            _ => panic!("bad kind"),
         }
      }
      wins.lock().unwrap().extend(mine);
   };
   if p.mode == "std" {
      std::thread::scope(|s| {
         let hs: Vec<_> = (0..p.t).map(|ti| { let body = &body; s.spawn(move || body(ti)) }).collect();
         let mut failed = false;
         for h in hs {
            if h.join().is_err() { failed = true; }
         }
         if failed { panic!("worker panicked"); }
      });
   } else {
      ctx.pool(p.t).broadcast(|c| body(c.index()));
   }
   let mut w = wins.into_inner().unwrap();
   w.sort();
   w
}

fn run<T: Ix>(ctx: &Ctx, p: &Params, out: &mut Vec<String>) {
   let mut x = T::new(ctx, 0);
   let base = (p.t * p.m) as i64;
   for i in 0..p.pre as i64 {
      match p.kind {
         'i' => {
            let xv = base + i;
            // CRelNoIndex: the key field of `ins` is the worker of the run pool that performs the insert
            let k = if p.cni { 0 } else { xv.rem_euclid(p.nkeys) };
            x.ins(ctx, k, if p.vdom > 0 { xv % p.vdom } else { xv })
         },
         _ => { x.np(i, -1 - i); },
      }
   }
   let w = fill(&x, ctx, p);
   x.frz();
   out.push(format!("w {}", w.iter().map(|v| v.to_string()).collect::<Vec<_>>().join(",")));
   out.push(format!("n {}", x.len()));
   out.push(format!("b {}", x.emp() as u8));
   for k in 0..=p.nkeys.min(8) {
      out.push(fmt_get(&x.get(k)));
   }
   out.push(fmt_iter(x.iter()));
}

pub fn main(ctx: &mut Ctx, args: &[String]) -> i32 {
   if args.len() != 9 {
      eprintln!("contend: expected <type> <npool> <mode> <T> <m> <nkeys> <kind> <vdom> <pre>");
      return 2;
   }
   let num = |i: usize| -> i64 { args[i].parse().expect("number") };
   let p = Params {
      cni: args[0] == "cni",
      npool: num(1) as usize,
      mode: args[2].clone(),
      t: num(3) as usize,
      m: num(4) as usize,
      nkeys: num(5),
      kind: args[6].chars().next().unwrap(),
      vdom: num(7),
      pre: num(8) as usize,
   };
   if p.t == 0 || p.nkeys <= 0 || !(p.mode == "std" || p.mode == "ray") || !(p.kind == 'i' || p.kind == 'n') {
      eprintln!("contend: bad parameters");
      return 2;
   }
   ctx.p = p.npool;
   ctx.n = [p.npool; 3];
   let mut out: Vec<String> = vec![];
   let res = std::panic::catch_unwind(std::panic::AssertUnwindSafe(|| match args[0].as_str() {
      "cri" => run::<Cri>(ctx, &p, &mut out),
      "cfi" => run::<Cfi>(ctx, &p, &mut out),
      "clat" => run::<Clat>(ctx, &p, &mut out),
      "cni" => run::<Cni>(ctx, &p, &mut out),
      _ => panic!("unknown type"),
   }));
   if let Err(e) = res {
      out.push(if e.downcast_ref::<Unsup>().is_some() { "unsup".into() } else { "panic".into() });
   }
   use std::io::Write;
   let stdout = std::io::stdout();
   let mut o = std::io::BufWriter::new(stdout.lock());
   for l in out {
      writeln!(o, "{}", l).unwrap();
   }
   o.flush().unwrap();
   0
}
