//! C17: ascent::aggregators on explicit inputs.
//! case: <name>[@<type>] <pn> <pd> <iterkind> v1 v2 ...
//!   type: the column type N the aggregator is instantiated with: i8 i16 i32 i64 u8 u16 u32 u64 (mean: only the types
//!         with Into<f64>, i.e. at most 32 bits, and f32); without `@type`: mean on i32, everything else on i64
//!   iterkind (count / not only): exact | filter | chain | flat
//! Values are parsed INTO the column type (a value outside it is a harness error, not a result).
use ascent::aggregators::*;

/// a malformed case is an error of the tie, never a result: the driver stops (lib.ds_run then reports the missing lines)
pub(crate) fn harness_error(msg: &str) -> ! {
   eprintln!("ds_driver agg: harness error: {}", msg);
   std::process::exit(3)
}
pub(crate) fn vals<T: std::str::FromStr>(toks: &[&str]) -> Vec<T> where T::Err: std::fmt::Debug {
   toks.iter().map(|t| t.parse().unwrap_or_else(|e| harness_error(&format!("value {} does not parse into the column type: {:?}", t, e)))).collect()
}
pub(crate) fn show<T: std::fmt::Display>(it: impl Iterator<Item = T>) -> String {
   let v: Vec<String> = it.map(|x| x.to_string()).collect();
   format!("ok {}", v.join(" "))
}

/// min / max / sum / percentile at a concrete column type (a macro, not a generic function: the driver must keep
/// compiling when an aggregator's trait bounds change, the way a user's concrete column does)
macro_rules! ord_aggs { ($t:ty, $name:expr, $p:expr, $rest:expr) => {{
   let v: Vec<$t> = vals($rest);
   match $name {
      "min" => show(min(v.iter().map(|x| (x,)))),
      "max" => show(max(v.iter().map(|x| (x,)))),
      "sum" => show(sum(v.iter().map(|x| (x,)))),
      "percentile" => { let f = percentile($p); show(f(v.iter().map(|x| (x,)))) }
      _ => harness_error("aggregator name"),
   }
}}}

/// mean at a concrete column type; the f64 is printed in its shortest round-trip form (parsed back exactly)
macro_rules! mean_at { ($t:ty, $rest:expr) => {{
   let v: Vec<$t> = vals($rest);
   let r: Vec<f64> = mean(v.iter().map(|x| (x,))).collect();
   show(r.iter().map(|f| format!("{:?}", f)))
}}}

/// count / not over a column of type T under four iterator shapes (different size hints); the hint is reported
/// so that the model is run with the hint the real iterator produced
fn count_not<T>(name: &str, kind: &str, rest: &[&str]) -> String
where T: std::str::FromStr + Clone, T::Err: std::fmt::Debug {
   let v: Vec<T> = vals(rest);
   macro_rules! go { ($it:expr) => {{
      let it = $it; let (lo, hi) = it.size_hint();
      let hint = format!("hint {} {}", lo, hi.map(|h| h.to_string()).unwrap_or("none".into()));
      if name == "count" { format!("{} {}", show(count(it)), hint) }
      else { format!("{} {}", show(not(it).map(|_| 0)), hint) }
   }}}
   match kind {
      "exact" => go!(v.iter().map(|_| ())),
      // a filter that keeps every row: the hint becomes (0, Some(len)) whatever the values are
      "filter" => go!(v.iter().filter(|_| std::hint::black_box(true)).map(|_| ())),
      "chain" => { let (a, b) = v.split_at(v.len() / 2); go!(a.iter().chain(b.iter()).map(|_| ())) }
      "flat" => { let vv: Vec<Vec<T>> = v.chunks(2).map(|c| c.to_vec()).collect(); go!(vv.iter().flat_map(|c| c.iter()).map(|_| ())) }
      // an exact part chained with a filtered part: inexact hint with a positive lower bound (k, Some(k + m))
      "mixed" => { let (a, b) = v.split_at(v.len() / 2); go!(a.iter().chain(b.iter().filter(|_| std::hint::black_box(true))).map(|_| ())) }
      "mixedrev" => { let (a, b) = v.split_at(v.len() / 3); go!(a.iter().filter(|_| std::hint::black_box(true)).chain(b.iter()).map(|_| ())) }
      _ => harness_error("iterator kind"),
   }
}

pub fn run(toks: &[&str]) -> String {
   let (name, ty) = match toks[0].split_once('@') { Some((n, t)) => (n, t), None => (toks[0], "") };
   let pn: f64 = toks[1].parse().unwrap();
   let pd: f64 = toks[2].parse().unwrap();
   let kind = toks[3];
   let rest = &toks[4..];
   match name {
      "min" | "max" | "sum" | "percentile" => match ty {
         "i8" => ord_aggs!(i8, name, pn / pd, rest),
         "i16" => ord_aggs!(i16, name, pn / pd, rest),
         "i32" => ord_aggs!(i32, name, pn / pd, rest),
         "" | "i64" => ord_aggs!(i64, name, pn / pd, rest),
         "u8" => ord_aggs!(u8, name, pn / pd, rest),
         "u16" => ord_aggs!(u16, name, pn / pd, rest),
         "u32" => ord_aggs!(u32, name, pn / pd, rest),
         "u64" => ord_aggs!(u64, name, pn / pd, rest),
         _ => harness_error("column type"),
      },
      "mean" => match ty {
         "i8" => mean_at!(i8, rest),
         "i16" => mean_at!(i16, rest),
         "" | "i32" => mean_at!(i32, rest),
         "u8" => mean_at!(u8, rest),
         "u16" => mean_at!(u16, rest),
         "u32" => mean_at!(u32, rest),
         "f32" => mean_at!(f32, rest),
         _ => harness_error("column type"),
      },
      "count" | "not" => match ty {
         "i8" => count_not::<i8>(name, kind, rest),
         "i16" => count_not::<i16>(name, kind, rest),
         "i32" => count_not::<i32>(name, kind, rest),
         "" | "i64" => count_not::<i64>(name, kind, rest),
         "u8" => count_not::<u8>(name, kind, rest),
         "u16" => count_not::<u16>(name, kind, rest),
         "u32" => count_not::<u32>(name, kind, rest),
         "u64" => count_not::<u64>(name, kind, rest),
         _ => harness_error("column type"),
      },
      _ => harness_error("aggregator name"),
   }
}
