//! C17: ascent::aggregators on explicit inputs.
//! case: <name> <pn> <pd> <iterkind> v1 v2 ...
//!   iterkind (count / not only): exact | filter | chain | flat
use ascent::aggregators::*;

fn vals<T: std::str::FromStr>(toks: &[&str]) -> Vec<T> where T::Err: std::fmt::Debug {
   toks.iter().map(|t| t.parse().unwrap()).collect()
}
fn show<T: std::fmt::Display>(it: impl Iterator<Item = T>) -> String {
   let v: Vec<String> = it.map(|x| x.to_string()).collect();
   format!("ok {}", v.join(" "))
}

pub fn run(toks: &[&str]) -> String {
   let name = toks[0];
   let pn: f64 = toks[1].parse().unwrap();
   let pd: f64 = toks[2].parse().unwrap();
   let kind = toks[3];
   let rest = &toks[4..];
   match name {
      "min" => { let v: Vec<i64> = vals(rest); show(min(v.iter().map(|x| (x,)))) }
      "max" => { let v: Vec<i64> = vals(rest); show(max(v.iter().map(|x| (x,)))) }
      "sum" => { let v: Vec<i64> = vals(rest); show(sum(v.iter().map(|x| (x,)))) }
      "mean" => {
         let v: Vec<i32> = vals(rest);
         let r: Vec<f64> = mean(v.iter().map(|x| (x,))).collect();
         show(r.iter().map(|f| format!("{:?}", f)))
      }
      "percentile" => {
         let v: Vec<i64> = vals(rest);
         let f = percentile(pn / pd);
         show(f(v.iter().map(|x| (x,))))
      }
      "count" | "not" => {
         let v: Vec<i64> = vals(rest);
         // different iterator shapes give different size hints; report the hint
         // so that the model is run with the hint the real iterator produced
         macro_rules! go { ($it:expr) => {{
            let it = $it; let (lo, hi) = it.size_hint();
            let hint = format!("hint {} {}", lo, hi.map(|h| h.to_string()).unwrap_or("none".into()));
            if name == "count" { format!("{} {}", show(count(it)), hint) }
            else { format!("{} {}", show(not(it).map(|_| 0)), hint) }
         }}}
         match kind {
            "exact" => go!(v.iter().map(|_| ())),
            "filter" => go!(v.iter().filter(|x| **x != i64::MIN).map(|_| ())),
            "chain" => { let (a, b) = v.split_at(v.len() / 2); go!(a.iter().chain(b.iter()).map(|_| ())) }
            "flat" => { let vv: Vec<Vec<i64>> = v.chunks(2).map(|c| c.to_vec()).collect(); go!(vv.iter().flat_map(|c| c.iter()).map(|_| ())) }
            _ => panic!("kind"),
         }
      }
      _ => panic!("agg name"),
   }
}
