//! C17: ONE aggregator value applied to a SEQUENCE of inputs.
//! case: <name>[@<type>] <pn> <pd> <iterkind> v v v | v v | | v ...      (inputs separated by `|`; an input may be empty)
//! result: the result of every application in order, separated by ` | `; a panicking application prints `panic` and
//! the sequence goes on with the same aggregator value.
//! The aggregator is bound ONCE per case (`let f = percentile(p);` / `let f = min;` ...) and `f` is applied to every
//! input, the way a rule `.. <-- let f = percentile(p), grp(g), agg m = (f)(x) in score(g, x)` applies one value to every
//! group.  Every result iterator is consumed before the next application.
use crate::agg::{harness_error, show, vals};
use ascent::aggregators::*;
use std::panic::{catch_unwind, AssertUnwindSafe};

fn guard(f: impl FnOnce() -> String) -> String { catch_unwind(AssertUnwindSafe(f)).unwrap_or_else(|_| "panic".to_string()) }

/// `$f` is evaluated once; the loop applies that one value to every input
macro_rules! seq_over { ($ins:expr, $f:expr) => {{
   let f = $f;
   let mut out: Vec<String> = vec![];
   for v in $ins.iter() { out.push(guard(|| show(f(v.iter().map(|x| (x,)))))); }
   out.join(" | ")
}}}

macro_rules! ord_seq { ($t:ty, $name:expr, $p:expr, $inputs:expr) => {{
   let ins: Vec<Vec<$t>> = $inputs.iter().map(|i| vals(i)).collect();
   match $name {
      "min" => seq_over!(ins, min),
      "max" => seq_over!(ins, max),
      "sum" => seq_over!(ins, sum),
      "percentile" => seq_over!(ins, percentile($p)),
      _ => harness_error("aggregator name"),
   }
}}}

macro_rules! mean_seq { ($t:ty, $inputs:expr) => {{
   let ins: Vec<Vec<$t>> = $inputs.iter().map(|i| vals(i)).collect();
   let f = mean;
   let mut out: Vec<String> = vec![];
   for v in ins.iter() {
      out.push(guard(|| { let r: Vec<f64> = f(v.iter().map(|x| (x,))).collect(); show(r.iter().map(|x| format!("{:?}", x))) }));
   }
   out.join(" | ")
}}}

fn count_not_seq<T>(name: &str, kind: &str, inputs: &[&[&str]]) -> String
where T: std::str::FromStr + Clone, T::Err: std::fmt::Debug {
   let ins: Vec<Vec<T>> = inputs.iter().map(|i| vals(i)).collect();
   // $coll: one element per input; $v => $it: the iterator of one input (the same expression, hence the same type, for every input)
   macro_rules! go { ($coll:expr, $v:ident, $it:expr) => {{
      let mut out: Vec<String> = vec![];
      if name == "count" {
         let f = count;
         for $v in $coll.iter() {
            out.push(guard(|| { let it = $it; let (lo, hi) = it.size_hint();
               format!("{} hint {} {}", show(f(it)), lo, hi.map(|h| h.to_string()).unwrap_or("none".into())) }));
         }
      } else {
         let f = not;
         for $v in $coll.iter() {
            out.push(guard(|| { let it = $it; let (lo, hi) = it.size_hint();
               format!("{} hint {} {}", show(f(it).map(|_| 0)), lo, hi.map(|h| h.to_string()).unwrap_or("none".into())) }));
         }
      }
      out.join(" | ")
   }}}
   match kind {
      "exact" => go!(ins, v, v.iter().map(|_| ())),
      "filter" => go!(ins, v, v.iter().filter(|_| std::hint::black_box(true)).map(|_| ())),
      "chain" => go!(ins, v, { let (a, b) = v.split_at(v.len() / 2); a.iter().chain(b.iter()).map(|_| ()) }),
      "mixed" => go!(ins, v, { let (a, b) = v.split_at(v.len() / 2); a.iter().chain(b.iter().filter(|_| std::hint::black_box(true))).map(|_| ()) }),
      "mixedrev" => go!(ins, v, { let (a, b) = v.split_at(v.len() / 3); a.iter().filter(|_| std::hint::black_box(true)).chain(b.iter()).map(|_| ()) }),
      "flat" => {
         let vvs: Vec<Vec<Vec<T>>> = ins.iter().map(|v| v.chunks(2).map(|c| c.to_vec()).collect()).collect();
         go!(vvs, vv, vv.iter().flat_map(|c| c.iter()).map(|_| ()))
      }
      _ => harness_error("iterator kind"),
   }
}

pub fn run(toks: &[&str]) -> String {
   if toks.len() < 4 { harness_error("aggseq case: <name>[@type] <pn> <pd> <iterkind> inputs.."); }
   let (name, ty) = match toks[0].split_once('@') { Some((n, t)) => (n, t), None => (toks[0], "") };
   let pn: f64 = toks[1].parse().unwrap_or_else(|_| harness_error("pn"));
   let pd: f64 = toks[2].parse().unwrap_or_else(|_| harness_error("pd"));
   let kind = toks[3];
   let inputs: Vec<&[&str]> = toks[4..].split(|t| *t == "|").collect();
   match name {
      "min" | "max" | "sum" | "percentile" => match ty {
         "i8" => ord_seq!(i8, name, pn / pd, inputs),
         "i16" => ord_seq!(i16, name, pn / pd, inputs),
         "i32" => ord_seq!(i32, name, pn / pd, inputs),
         "" | "i64" => ord_seq!(i64, name, pn / pd, inputs),
         "u8" => ord_seq!(u8, name, pn / pd, inputs),
         "u16" => ord_seq!(u16, name, pn / pd, inputs),
         "u32" => ord_seq!(u32, name, pn / pd, inputs),
         "u64" => ord_seq!(u64, name, pn / pd, inputs),
         _ => harness_error("column type"),
      },
      "mean" => match ty {
         "i8" => mean_seq!(i8, inputs),
         "i16" => mean_seq!(i16, inputs),
         "" | "i32" => mean_seq!(i32, inputs),
         "u8" => mean_seq!(u8, inputs),
         "u16" => mean_seq!(u16, inputs),
         "u32" => mean_seq!(u32, inputs),
         _ => harness_error("column type"),
      },
      "count" | "not" => match ty {
         "" | "i64" => count_not_seq::<i64>(name, kind, &inputs),
         "u8" => count_not_seq::<u8>(name, kind, &inputs),
         "i32" => count_not_seq::<i32>(name, kind, &inputs),
         _ => harness_error("column type"),
      },
      _ => harness_error("aggregator name"),
   }
}
