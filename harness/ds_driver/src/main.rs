//! ds_driver: runs operation histories / argument tables against the real data
//! structures of /repo and prints one canonical result line per case.
//! Usage: ds_driver <suite>   (cases on stdin, one per line)
use std::io::{self, BufRead, Write};
use std::panic;

mod agg;
mod aggseq;

fn main() {
   let suite = std::env::args().nth(1).expect("suite");
   // panics are results, not noise
   panic::set_hook(Box::new(|_| {}));
   let stdin = io::stdin();
   let stdout = io::stdout();
   let mut out = io::BufWriter::new(stdout.lock());
   for line in stdin.lock().lines() {
      let line = line.unwrap();
      let line = line.trim();
      if line.is_empty() { continue; }
      let toks: Vec<&str> = line.split_whitespace().collect();
      let res = panic::catch_unwind(|| match suite.as_str() {
         "agg" => agg::run(&toks),
         "aggseq" => aggseq::run(&toks),
         _ => panic!("unknown suite"),
      });
      match res {
         Ok(s) => writeln!(out, "{}", s).unwrap(),
         Err(_) => writeln!(out, "panic").unwrap(),
      }
   }
}
