//! binary eqrel, parallel: `CEqRelIndCommon<u32>` (total / delta frozen pairs, `new` a mutex-protected EqRel)
//! through the types the provider macros select for `par`.
//! dump layout per version: the 20 numbers of `bin` read through the serial traits (RelIndexRead /
//! RelIndexReadAll / RelFullIndexRead), then the same 20 numbers (f_ck repeated as is) read through the
//! parallel traits (CRelIndexRead / CRelIndexReadAll) the generated parallel code uses for outer clauses.
use std::sync::{Arc, Barrier};

use ascent::internal::{
   CRelFullIndexWrite, CRelIndexRead, CRelIndexReadAll, Freezable, RelFullIndexRead, RelIndexMerge, RelIndexRead,
   RelIndexReadAll, ToRelIndex0,
};
use ascent::rayon::iter::ParallelIterator;
use ascent_byods_rels::eqrel;

use crate::{join, Acc};

type Common = eqrel::rel_ind_common!(r, (u32, u32), [[], [0], [0, 1], [1]], par, ());
type Full = eqrel::rel_full_ind!(r, (u32, u32), [[], [0], [0, 1], [1]], par, (), (u32, u32), ());
type I0 = eqrel::rel_ind!(r, (u32, u32), [[], [0], [0, 1], [1]], par, (), [0], (u32,), (u32,));
type I1 = eqrel::rel_ind!(r, (u32, u32), [[], [0], [0, 1], [1]], par, (), [1], (u32,), (u32,));
type INone = eqrel::rel_ind!(r, (u32, u32), [[], [0], [0, 1], [1]], par, (), [], (), (u32, u32));

/// the key type of the full index is `&(T, T)` in the current source (which makes generated parallel code that
/// reads the relation with both columns bound fail to compile, finding `par_full_index_key_type`) and would be
/// `(T, T)` after a repair: the harness builds whichever the provider declares
trait MkKey<'a> {
   fn mk(k: &'a (u32, u32)) -> Self;
}
impl<'a> MkKey<'a> for (u32, u32) {
   fn mk(k: &'a (u32, u32)) -> Self { *k }
}
impl<'a> MkKey<'a> for &'a (u32, u32) {
   fn mk(k: &'a (u32, u32)) -> Self { k }
}
fn full_get<'a, I>(ind: &'a I, key: &'a (u32, u32)) -> Option<usize>
where
   I: RelIndexRead<'a>,
   I::Key: MkKey<'a>,
{
   let k = <I::Key as MkKey>::mk(key);
   ind.index_get(&k).map(|it| it.count())
}
fn c_full_get<'a, I>(ind: &'a I, key: &'a (u32, u32)) -> Option<usize>
where
   I: CRelIndexRead<'a>,
   I::Key: MkKey<'a>,
{
   let k = <I::Key as MkKey>::mk(key);
   ind.c_index_get(&k).map(|it| it.count())
}

#[derive(Default)]
struct Ver {
   c: Common,
   f: Full,
   i0: I0,
   i1: I1,
   n: INone,
}

fn dump(v: &Ver, dom: u32) -> Vec<i64> {
   let d1 = dom + 1;
   let mut out = vec![];
   // ---------------- serial read traits
   {
      let ind = ToRelIndex0::to_rel_index(&v.f, &v.c);
      let (mut get, mut ck, mut all) = (Acc::new(1, d1), Acc::new(1, d1), Acc::new(1, d1));
      let mut badcnt = 0u64;
      for x in 0..d1 {
         for y in 0..d1 {
            let key = (x, y);
            if let Some(n) = full_get(&ind, &key) {
               get.add(0, x, y);
               if n != 1 {
                  badcnt += 1;
               }
            }
            if RelFullIndexRead::contains_key(&ind, &key) {
               ck.add(0, x, y);
            }
         }
      }
      for (k, vals) in RelIndexReadAll::iter_all(&ind) {
         for () in vals {
            all.add(0, *k.0, *k.1);
         }
      }
      out.push(get.masks[0] as i64);
      out.push(badcnt as i64);
      out.push(ck.masks[0] as i64);
      all.out(&mut out);
   }
   {
      let ind = ToRelIndex0::to_rel_index(&v.i0, &v.c);
      let (mut get, mut all) = (Acc::new(1, d1), Acc::new(1, d1));
      let mut some = 0u64;
      for x in 0..d1 {
         if let Some(it) = RelIndexRead::index_get(&ind, &(x,)) {
            some |= 1 << x;
            for (y,) in it {
               get.add(0, x, *y);
            }
         }
      }
      for (k, vals) in RelIndexReadAll::iter_all(&ind) {
         for (y,) in vals {
            all.add(0, k.0, *y);
         }
      }
      out.push(some as i64);
      get.out(&mut out);
      all.out(&mut out);
   }
   {
      let ind = ToRelIndex0::to_rel_index(&v.i1, &v.c);
      let (mut get, mut all) = (Acc::new(1, d1), Acc::new(1, d1));
      let mut some = 0u64;
      for y in 0..d1 {
         if let Some(it) = RelIndexRead::index_get(&ind, &(y,)) {
            some |= 1 << y;
            for (x,) in it {
               get.add(0, *x, y);
            }
         }
      }
      for (k, vals) in RelIndexReadAll::iter_all(&ind) {
         for (x,) in vals {
            all.add(0, *x, k.0);
         }
      }
      out.push(some as i64);
      get.out(&mut out);
      all.out(&mut out);
   }
   {
      let ind = ToRelIndex0::to_rel_index(&v.n, &v.c);
      let (mut get, mut all) = (Acc::new(1, d1), Acc::new(1, d1));
      let mut some = 0u64;
      if let Some(it) = RelIndexRead::index_get(&ind, &()) {
         some = 1;
         for (x, y) in it {
            get.add(0, *x, *y);
         }
      }
      for ((), vals) in RelIndexReadAll::iter_all(&ind) {
         for (x, y) in vals {
            all.add(0, *x, *y);
         }
      }
      out.push(some as i64);
      get.out(&mut out);
      all.out(&mut out);
   }
   // ---------------- parallel read traits
   {
      let ind = ToRelIndex0::to_rel_index(&v.f, &v.c);
      let (mut get, mut ck, mut all) = (Acc::new(1, d1), Acc::new(1, d1), Acc::new(1, d1));
      let mut badcnt = 0u64;
      for x in 0..d1 {
         for y in 0..d1 {
            let key = (x, y);
            if let Some(n) = c_full_get(&ind, &key) {
               get.add(0, x, y);
               if n != 1 {
                  badcnt += 1;
               }
            }
            if RelFullIndexRead::contains_key(&ind, &key) {
               ck.add(0, x, y);
            }
         }
      }
      let entries: Vec<((u32, u32), usize)> = CRelIndexReadAll::c_iter_all(&ind).map(|(k, vals)| ((*k.0, *k.1), vals.count())).collect();
      for ((x, y), n) in entries {
         for _ in 0..n {
            all.add(0, x, y);
         }
      }
      out.push(get.masks[0] as i64);
      out.push(badcnt as i64);
      out.push(ck.masks[0] as i64);
      all.out(&mut out);
   }
   {
      let ind = ToRelIndex0::to_rel_index(&v.i0, &v.c);
      let (mut get, mut all) = (Acc::new(1, d1), Acc::new(1, d1));
      let mut some = 0u64;
      for x in 0..d1 {
         if let Some(it) = CRelIndexRead::c_index_get(&ind, &(x,)) {
            some |= 1 << x;
            let ys: Vec<u32> = it.map(|(y,)| *y).collect();
            for y in ys {
               get.add(0, x, y);
            }
         }
      }
      let entries: Vec<(u32, Vec<u32>)> = CRelIndexReadAll::c_iter_all(&ind).map(|(k, vals)| (k.0, vals.map(|(y,)| *y).collect())).collect();
      for (x, ys) in entries {
         for y in ys {
            all.add(0, x, y);
         }
      }
      out.push(some as i64);
      get.out(&mut out);
      all.out(&mut out);
   }
   {
      let ind = ToRelIndex0::to_rel_index(&v.i1, &v.c);
      let (mut get, mut all) = (Acc::new(1, d1), Acc::new(1, d1));
      let mut some = 0u64;
      for y in 0..d1 {
         if let Some(it) = CRelIndexRead::c_index_get(&ind, &(y,)) {
            some |= 1 << y;
            let xs: Vec<u32> = it.map(|(x,)| *x).collect();
            for x in xs {
               get.add(0, x, y);
            }
         }
      }
      let entries: Vec<(u32, Vec<u32>)> = CRelIndexReadAll::c_iter_all(&ind).map(|(k, vals)| (k.0, vals.map(|(x,)| *x).collect())).collect();
      for (y, xs) in entries {
         for x in xs {
            all.add(0, x, y);
         }
      }
      out.push(some as i64);
      get.out(&mut out);
      all.out(&mut out);
   }
   {
      let ind = ToRelIndex0::to_rel_index(&v.n, &v.c);
      let (mut get, mut all) = (Acc::new(1, d1), Acc::new(1, d1));
      let mut some = 0u64;
      if let Some(it) = CRelIndexRead::c_index_get(&ind, &()) {
         some = 1;
         let ps: Vec<(u32, u32)> = it.map(|(x, y)| (*x, *y)).collect();
         for (x, y) in ps {
            get.add(0, x, y);
         }
      }
      let entries: Vec<Vec<(u32, u32)>> = CRelIndexReadAll::c_iter_all(&ind).map(|((), vals)| vals.map(|(x, y)| (*x, *y)).collect()).collect();
      for ps in entries {
         for (x, y) in ps {
            all.add(0, x, y);
         }
      }
      out.push(some as i64);
      get.out(&mut out);
      all.out(&mut out);
   }
   out
}

/// `is_empty()` of every read view (f, i0, i1, n) through the serial read trait the generated code calls for the any-empty skip
fn empties(v: &Ver) -> Vec<i64> {
   fn flag(f: impl FnOnce() -> bool) -> i64 {
      match std::panic::catch_unwind(std::panic::AssertUnwindSafe(f)) {
         Ok(b) => b as i64,
         Err(_) => 2,
      }
   }
   vec![
      flag(|| RelIndexRead::is_empty(&ToRelIndex0::to_rel_index(&v.f, &v.c))),
      flag(|| RelIndexRead::is_empty(&ToRelIndex0::to_rel_index(&v.i0, &v.c))),
      flag(|| RelIndexRead::is_empty(&ToRelIndex0::to_rel_index(&v.i1, &v.c))),
      flag(|| RelIndexRead::is_empty(&ToRelIndex0::to_rel_index(&v.n, &v.c))),
   ]
}

struct St {
   new: Ver,
   delta: Ver,
   total: Ver,
   field: Ver,
}

macro_rules! on_indices {
   ($s: ident, $f: path) => {
      $f(&mut $s.new.i0.to_rel_index_write(&mut $s.new.c), &mut $s.delta.i0.to_rel_index_write(&mut $s.delta.c), &mut $s.total.i0.to_rel_index_write(&mut $s.total.c));
      $f(&mut $s.new.f.to_rel_index_write(&mut $s.new.c), &mut $s.delta.f.to_rel_index_write(&mut $s.delta.c), &mut $s.total.f.to_rel_index_write(&mut $s.total.c));
      $f(&mut $s.new.i1.to_rel_index_write(&mut $s.new.c), &mut $s.delta.i1.to_rel_index_write(&mut $s.delta.c), &mut $s.total.i1.to_rel_index_write(&mut $s.total.c));
      $f(&mut $s.new.n.to_rel_index_write(&mut $s.new.c), &mut $s.delta.n.to_rel_index_write(&mut $s.delta.c), &mut $s.total.n.to_rel_index_write(&mut $s.total.c));
   };
}

fn freeze(s: &mut St) {
   for v in [&mut s.total, &mut s.delta] {
      v.c.freeze();
      v.i0.freeze();
      v.f.freeze();
      v.i1.freeze();
      v.n.freeze();
   }
}

fn unfreeze(s: &mut St) {
   for v in [&mut s.total, &mut s.delta] {
      v.c.unfreeze();
      v.i0.unfreeze();
      v.f.unfreeze();
      v.i1.unfreeze();
      v.n.unfreeze();
   }
}

fn restart(s: &mut St) {
   s.field = std::mem::take(&mut s.total);
   s.delta = std::mem::take(&mut s.field);
   s.total = Default::default();
   s.new = Default::default();
   RelIndexMerge::init(&mut s.new.c, &mut s.delta.c, &mut s.total.c);
   on_indices!(s, RelIndexMerge::init);
   freeze(s);
}

/// one head update through the concurrent write view, as generated for `ascent_par!`
fn head(s: &St, row: (u32, u32), check: bool) -> u8 {
   if check
      && (RelFullIndexRead::contains_key(&ToRelIndex0::to_rel_index(&s.total.f, &s.total.c), &row)
         || RelFullIndexRead::contains_key(&ToRelIndex0::to_rel_index(&s.delta.f, &s.delta.c), &row))
   {
      return 2;
   }
   if CRelFullIndexWrite::insert_if_not_present(&ToRelIndex0::to_c_rel_index_write(&s.new.f, &s.new.c), &row, ()) { 1 } else { 0 }
}

pub fn run(dom: u32, ops: &[&str], steps: &mut Vec<String>) {
   let mut s = St { new: Default::default(), delta: Default::default(), total: Default::default(), field: Default::default() };
   restart(&mut s);
   for op in ops {
      let p: Vec<&str> = op.split(':').collect();
      match p[0] {
         "i" | "h" => {
            let row: (u32, u32) = (p[1].parse().unwrap(), p[2].parse().unwrap());
            steps.push(head(&s, row, p[0] == "h").to_string());
         },
         "p" => {
            let seed: u64 = p[1].parse().unwrap();
            let tasks: Vec<Vec<(u32, u32)>> = p[2]
               .split('/')
               .map(|t| {
                  t.split('+')
                     .filter(|it| !it.is_empty())
                     .map(|it| {
                        let f: Vec<&str> = it.split('.').collect();
                        (f[0].parse().unwrap(), f[1].parse().unwrap())
                     })
                     .collect()
               })
               .collect();
            let barrier = Arc::new(Barrier::new(tasks.len()));
            let sr = &s;
            let results: Vec<Vec<u8>> = std::thread::scope(|sc| {
               let hs: Vec<_> = tasks
                  .iter()
                  .enumerate()
                  .map(|(ti, task)| {
                     let barrier = barrier.clone();
                     sc.spawn(move || {
                        let mut rng = seed.wrapping_mul(6364136223846793005).wrapping_add(ti as u64 * 1442695040888963407 + 1);
                        barrier.wait();
                        let mut res = vec![];
                        for row in task {
                           rng = rng.wrapping_mul(6364136223846793005).wrapping_add(1442695040888963407);
                           for _ in 0..((rng >> 60) & 3) {
                              std::thread::yield_now();
                           }
                           res.push(head(sr, *row, true));
                        }
                        res
                     })
                  })
                  .collect();
               hs.into_iter().map(|h| h.join().unwrap()).collect()
            });
            steps.push(format!("p {}", results.iter().map(|r| r.iter().map(|b| b.to_string()).collect::<Vec<_>>().join("")).collect::<Vec<_>>().join("/")));
         },
         "m" | "M" | "r" => {
            match p[0] {
               "m" => {
                  unfreeze(&mut s);
                  RelIndexMerge::merge_delta_to_total_new_to_delta(&mut s.new.c, &mut s.delta.c, &mut s.total.c);
                  on_indices!(s, RelIndexMerge::merge_delta_to_total_new_to_delta);
                  freeze(&mut s);
               },
               "M" => {
                  unfreeze(&mut s);
                  RelIndexMerge::merge_delta_to_total_new_to_delta(&mut s.new.c, &mut s.delta.c, &mut s.total.c);
                  freeze(&mut s);
               },
               _ => restart(&mut s),
            }
            steps.push(format!("D {} T {} E {} {}", join(&dump(&s.delta, dom)), join(&dump(&s.total, dom)), join(&empties(&s.delta)), join(&empties(&s.total))));
         },
         _ => panic!("bad op {}", op),
      }
   }
}
