//! ds_eqrel (C10): interprets operation histories against the real `#[ds(eqrel)]` provider types of
//! /repo/byods/ascent-byods-rels exactly the way generated Ascent code drives them, and prints every
//! observable answer in a canonical numeric form.  One history per stdin line, one result line per history.
//!
//! usage: ds_eqrel <suite>          suite = bin (binary, serial) | par (binary, parallel) | ter (ternary, serial)
//!
//! history line:  <dom> <nkeys> op op ...        values 0..dom-1, keys 0..nkeys-1 (nkeys ignored by bin / par)
//!   i:x:y   | i:k:x:y      insert_if_not_present on the full-index write view of `new`         -> 0 | 1
//!   h:x:y   | h:k:x:y      head update as generated: skipped when contains_key(total) or
//!                          contains_key(delta), else insert_if_not_present(new)               -> 2 | 0 | 1
//!   m                      one loop-iteration merge as generated: merge_delta_to_total_new_to_delta on the
//!                          common structure, then on the write view of EVERY index of the relation
//!   M                      merge of the common structure only (diagnostic; not what generated code does)
//!   r                      stratum boundary as generated: field := total; delta := take(field);
//!                          total, new := default; RelIndexMerge::init on the common and every index view
//!   p:seed:task/task/..    (par only) tasks run concurrently on std threads, each a sequence x.y+x.y+.. of
//!                          head updates through the concurrent write view                       -> results per task
//! after m / M / r every view of delta and of total is read:  `D n n n ...  T n n n ...`
//!   (layout documented at `dump_*`; sets of full tuples are bit masks, one u64 per key:
//!    bit x*(dom+1)+y; probes range over 0..=dom / 0..=nkeys so that absent values are exercised)
//! steps are separated by `;`, a panic ends the line with `panic:<message>`; a panic while one view of the
//! ternary form is read fills that view's numbers with -1 and reading goes on.
use std::io::{self, BufRead, Write};
use std::panic::{self, AssertUnwindSafe};

mod bin;
mod par;
mod ter;

/// accumulates full tuples served by a view: one mask per key, number of entries, out-of-range entries
pub struct Acc {
   pub d1: u32,
   pub masks: Vec<u64>,
   pub n: u64,
   pub oob: u64,
}
impl Acc {
   pub fn new(nk1: usize, d1: u32) -> Self { Acc { d1, masks: vec![0; nk1], n: 0, oob: 0 } }
   pub fn add(&mut self, k: u32, x: u32, y: u32) {
      if (k as usize) >= self.masks.len() || x >= self.d1 || y >= self.d1 {
         self.oob += 1;
         return;
      }
      self.masks[k as usize] |= 1u64 << (x * self.d1 + y);
      self.n += 1;
   }
   /// masks, then (#entries - #distinct) + 1000 * #out-of-range
   pub fn out(&self, v: &mut Vec<i64>) {
      v.extend(self.masks.iter().map(|m| *m as i64));
      let distinct: u64 = self.masks.iter().map(|m| m.count_ones() as u64).sum();
      v.push((self.n - distinct + 1000 * self.oob) as i64);
   }
}

pub fn join(v: &[i64]) -> String { v.iter().map(|x| x.to_string()).collect::<Vec<_>>().join(" ") }

pub fn panic_msg(e: Box<dyn std::any::Any + Send>) -> String {
   let s = if let Some(s) = e.downcast_ref::<&str>() {
      s.to_string()
   } else if let Some(s) = e.downcast_ref::<String>() {
      s.clone()
   } else {
      "?".to_string()
   };
   s.chars().map(|c| if c == ';' || c == '\n' { ' ' } else { c }).take(120).collect()
}

fn main() {
   let suite = std::env::args().nth(1).expect("suite");
   panic::set_hook(Box::new(|_| {}));
   let stdin = io::stdin();
   let stdout = io::stdout();
   let mut out = io::BufWriter::new(stdout.lock());
   for line in stdin.lock().lines() {
      let line = line.unwrap();
      let line = line.trim();
      if line.is_empty() {
         continue;
      }
      let toks: Vec<&str> = line.split_whitespace().collect();
      let dom: u32 = toks[0].parse().unwrap();
      let nk: u32 = toks[1].parse().unwrap();
      assert!((dom + 1) * (dom + 1) <= 64);
      let mut steps: Vec<String> = vec![];
      let r = panic::catch_unwind(AssertUnwindSafe(|| match suite.as_str() {
         "bin" => bin::run(dom, &toks[2..], &mut steps),
         "par" => par::run(dom, &toks[2..], &mut steps),
         "ter" => ter::run(dom, nk, &toks[2..], &mut steps),
         _ => panic!("unknown suite"),
      }));
      if let Err(e) = r {
         steps.push(format!("panic:{}", panic_msg(e)));
      }
      writeln!(out, "{}", steps.join(";")).unwrap();
   }
}
