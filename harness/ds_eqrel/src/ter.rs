//! ternary eqrel, serial: `EqRel2IndCommonWithReverse<u32, u32>` through the types the provider macros select.
//! (The index on column [2] alone named a type that did not exist before /repo commit 0f251c7; a source tree
//! without that repair does not build this harness, which the check reports as a violation.)
//! dump layout per version, K = nkeys + 1 masks per set (full tuples (k, x, y): mask k, bit x*(dom+1)+y):
//!   [ f_get[K] f_badcnt  f_ck[K]  f_all[K] dups
//!     i0_some       i0_get[K] dups  i0_all[K] dups          key (k)      value (x, y)
//!     i1_some       i1_get[K] dups  i1_all[K] dups          key (x)      value (k, y)
//!     i2_some       i2_get[K] dups  i2_all[K] dups          key (y)      value (k, x)
//!     i01_some[K]   i01_get[K] dups i01_all[K] dups         key (k, x)   value (y)
//!     i02_some[K]   i02_get[K] dups i02_all[K] dups         key (k, y)   value (x)
//!     i12_some      i12_get[K] dups i12_all[K] dups         key (x, y)   value (k)
//!     n_some        n_get[K] dups   n_all[K] dups ]
use ascent::internal::{
   RelFullIndexRead, RelFullIndexWrite, RelIndexMerge, RelIndexRead, RelIndexReadAll, ToRelIndex,
};
use ascent_byods_rels::eqrel;

use crate::{join, Acc};

type Common = eqrel::rel_ind_common!(r, (u32, u32, u32), [[], [0], [0, 1], [0, 1, 2], [0, 2], [1], [1, 2]], ser, ());
type Full =
   eqrel::rel_full_ind!(r, (u32, u32, u32), [[], [0], [0, 1], [0, 1, 2], [0, 2], [1], [1, 2]], ser, (), (u32, u32, u32), ());
type I0 = eqrel::rel_ind!(r, (u32, u32, u32), [[]], ser, (), [0], (u32,), (u32, u32));
type I1 = eqrel::rel_ind!(r, (u32, u32, u32), [[]], ser, (), [1], (u32,), (u32, u32));
type I2 = eqrel::rel_ind!(r, (u32, u32, u32), [[]], ser, (), [2], (u32,), (u32, u32));
type I01 = eqrel::rel_ind!(r, (u32, u32, u32), [[]], ser, (), [0, 1], (u32, u32), (u32,));
type I02 = eqrel::rel_ind!(r, (u32, u32, u32), [[]], ser, (), [0, 2], (u32, u32), (u32,));
type I12 = eqrel::rel_ind!(r, (u32, u32, u32), [[]], ser, (), [1, 2], (u32, u32), (u32,));
type INone = eqrel::rel_ind!(r, (u32, u32, u32), [[]], ser, (), [], (), (u32, u32, u32));

#[derive(Default)]
struct Ver {
   c: Common,
   f: Full,
   i0: I0,
   i1: I1,
   i2: I2,
   i01: I01,
   i02: I02,
   i12: I12,
   n: INone,
}

/// `is_empty()` of every read view, in the order f, i0, i1, i2, i01, i02, i12, n (2 = the call panicked)
fn empties(v: &Ver) -> Vec<i64> {
   fn flag(f: impl FnOnce() -> bool) -> i64 {
      match std::panic::catch_unwind(std::panic::AssertUnwindSafe(f)) {
         Ok(b) => b as i64,
         Err(_) => 2,
      }
   }
   vec![
      flag(|| RelIndexRead::is_empty(&v.f.to_rel_index(&v.c))),
      flag(|| RelIndexRead::is_empty(&v.i0.to_rel_index(&v.c))),
      flag(|| RelIndexRead::is_empty(&v.i1.to_rel_index(&v.c))),
      flag(|| RelIndexRead::is_empty(&v.i2.to_rel_index(&v.c))),
      flag(|| RelIndexRead::is_empty(&v.i01.to_rel_index(&v.c))),
      flag(|| RelIndexRead::is_empty(&v.i02.to_rel_index(&v.c))),
      flag(|| RelIndexRead::is_empty(&v.i12.to_rel_index(&v.c))),
      flag(|| RelIndexRead::is_empty(&v.n.to_rel_index(&v.c))),
   ]
}

/// one view: its numbers, or -1 in every slot when reading it panics
fn view(slots: usize, out: &mut Vec<i64>, f: impl FnOnce(&mut Vec<i64>)) {
   let mut part: Vec<i64> = vec![];
   let r = std::panic::catch_unwind(std::panic::AssertUnwindSafe(|| f(&mut part)));
   if r.is_err() {
      part = vec![-1; slots];
   }
   assert_eq!(part.len(), slots);
   out.extend(part);
}

fn dump(v: &Ver, dom: u32, nk: u32) -> Vec<i64> {
   let d1 = dom + 1;
   let k1 = (nk + 1) as usize;
   let mut res = vec![];
   view(3 * k1 + 2, &mut res, |out| {
      let ind = v.f.to_rel_index(&v.c);
      let (mut get, mut ck, mut all) = (Acc::new(k1, d1), Acc::new(k1, d1), Acc::new(k1, d1));
      let mut badcnt = 0u64;
      for k in 0..=nk {
         for x in 0..d1 {
            for y in 0..d1 {
               if let Some(it) = ind.index_get(&(k, x, y)) {
                  get.add(k, x, y);
                  if it.count() != 1 {
                     badcnt += 1;
                  }
               }
               if ind.contains_key(&(k, x, y)) {
                  ck.add(k, x, y);
               }
            }
         }
      }
      for (key, vals) in ind.iter_all() {
         for _ in vals {
            all.add(*key.0, *key.1, *key.2);
         }
      }
      out.extend(get.masks.iter().map(|m| *m as i64));
      out.push(badcnt as i64);
      out.extend(ck.masks.iter().map(|m| *m as i64));
      all.out(out);
   });
   view(2 * k1 + 3, &mut res, |out| {
      let ind = v.i0.to_rel_index(&v.c);
      let (mut get, mut all) = (Acc::new(k1, d1), Acc::new(k1, d1));
      let mut some = 0u64;
      for k in 0..=nk {
         if let Some(it) = ind.index_get(&(k,)) {
            some |= 1 << k;
            for (x, y) in it {
               get.add(k, *x, *y);
            }
         }
      }
      for (key, vals) in ind.iter_all() {
         for (x, y) in vals {
            all.add(key.0, *x, *y);
         }
      }
      out.push(some as i64);
      get.out(out);
      all.out(out);
   });
   view(2 * k1 + 3, &mut res, |out| {
      let ind = v.i1.to_rel_index(&v.c);
      let (mut get, mut all) = (Acc::new(k1, d1), Acc::new(k1, d1));
      let mut some = 0u64;
      for x in 0..d1 {
         if let Some(it) = ind.index_get(&(x,)) {
            some |= 1 << x;
            for (k, y) in it {
               get.add(*k, x, *y);
            }
         }
      }
      for (key, vals) in ind.iter_all() {
         for (k, y) in vals {
            all.add(*k, key.0, *y);
         }
      }
      out.push(some as i64);
      get.out(out);
      all.out(out);
   });
   view(2 * k1 + 3, &mut res, |out| {
      let ind = v.i2.to_rel_index(&v.c);
      let (mut get, mut all) = (Acc::new(k1, d1), Acc::new(k1, d1));
      let mut some = 0u64;
      for y in 0..d1 {
         if let Some(it) = ind.index_get(&(y,)) {
            some |= 1 << y;
            for (k, x) in it {
               get.add(*k, *x, y);
            }
         }
      }
      for (key, vals) in ind.iter_all() {
         for (k, x) in vals {
            all.add(*k, *x, key.0);
         }
      }
      out.push(some as i64);
      get.out(out);
      all.out(out);
   });
   view(3 * k1 + 2, &mut res, |out| {
      let ind = v.i01.to_rel_index(&v.c);
      let (mut get, mut all) = (Acc::new(k1, d1), Acc::new(k1, d1));
      let mut some = vec![0u64; k1];
      for k in 0..=nk {
         for x in 0..d1 {
            if let Some(it) = ind.index_get(&(k, x)) {
               some[k as usize] |= 1 << x;
               for (y,) in it {
                  get.add(k, x, *y);
               }
            }
         }
      }
      for (key, vals) in ind.iter_all() {
         for (y,) in vals {
            all.add(*key.0, *key.1, *y);
         }
      }
      out.extend(some.iter().map(|m| *m as i64));
      get.out(out);
      all.out(out);
   });
   view(3 * k1 + 2, &mut res, |out| {
      let ind = v.i02.to_rel_index(&v.c);
      let (mut get, mut all) = (Acc::new(k1, d1), Acc::new(k1, d1));
      let mut some = vec![0u64; k1];
      for k in 0..=nk {
         for y in 0..d1 {
            if let Some(it) = ind.index_get(&(k, y)) {
               some[k as usize] |= 1 << y;
               for (x,) in it {
                  get.add(k, *x, y);
               }
            }
         }
      }
      for (key, vals) in ind.iter_all() {
         for (x,) in vals {
            all.add(*key.0, *x, *key.1);
         }
      }
      out.extend(some.iter().map(|m| *m as i64));
      get.out(out);
      all.out(out);
   });
   view(2 * k1 + 3, &mut res, |out| {
      let ind = v.i12.to_rel_index(&v.c);
      let (mut get, mut all) = (Acc::new(k1, d1), Acc::new(k1, d1));
      let mut some = 0u64;
      for x in 0..d1 {
         for y in 0..d1 {
            if let Some(it) = ind.index_get(&(x, y)) {
               some |= 1 << (x * d1 + y);
               for (k,) in it {
                  get.add(*k, x, y);
               }
            }
         }
      }
      for (key, vals) in ind.iter_all() {
         for (k,) in vals {
            all.add(*k, *key.0, *key.1);
         }
      }
      out.push(some as i64);
      get.out(out);
      all.out(out);
   });
   view(2 * k1 + 3, &mut res, |out| {
      let ind = v.n.to_rel_index(&v.c);
      let (mut get, mut all) = (Acc::new(k1, d1), Acc::new(k1, d1));
      let mut some = 0u64;
      if let Some(it) = ind.index_get(&()) {
         some = 1;
         for (k, x, y) in it {
            get.add(*k, *x, *y);
         }
      }
      for (_, vals) in ind.iter_all() {
         for (k, x, y) in vals {
            all.add(*k, *x, *y);
         }
      }
      out.push(some as i64);
      get.out(out);
      all.out(out);
   });
   res
}

struct St {
   new: Ver,
   delta: Ver,
   total: Ver,
   field: Ver,
}

macro_rules! on_indices {
   ($s: ident, $f: path) => {
      // order of generated code: indices sorted by name: _0, _0_1, _0_1_2, _0_2, _1, _1_2, _2, _none
      $f(&mut $s.new.i0.to_rel_index_write(&mut $s.new.c), &mut $s.delta.i0.to_rel_index_write(&mut $s.delta.c), &mut $s.total.i0.to_rel_index_write(&mut $s.total.c));
      $f(&mut $s.new.i01.to_rel_index_write(&mut $s.new.c), &mut $s.delta.i01.to_rel_index_write(&mut $s.delta.c), &mut $s.total.i01.to_rel_index_write(&mut $s.total.c));
      $f(&mut $s.new.f.to_rel_index_write(&mut $s.new.c), &mut $s.delta.f.to_rel_index_write(&mut $s.delta.c), &mut $s.total.f.to_rel_index_write(&mut $s.total.c));
      $f(&mut $s.new.i02.to_rel_index_write(&mut $s.new.c), &mut $s.delta.i02.to_rel_index_write(&mut $s.delta.c), &mut $s.total.i02.to_rel_index_write(&mut $s.total.c));
      $f(&mut $s.new.i1.to_rel_index_write(&mut $s.new.c), &mut $s.delta.i1.to_rel_index_write(&mut $s.delta.c), &mut $s.total.i1.to_rel_index_write(&mut $s.total.c));
      $f(&mut $s.new.i12.to_rel_index_write(&mut $s.new.c), &mut $s.delta.i12.to_rel_index_write(&mut $s.delta.c), &mut $s.total.i12.to_rel_index_write(&mut $s.total.c));
      $f(&mut $s.new.i2.to_rel_index_write(&mut $s.new.c), &mut $s.delta.i2.to_rel_index_write(&mut $s.delta.c), &mut $s.total.i2.to_rel_index_write(&mut $s.total.c));
      $f(&mut $s.new.n.to_rel_index_write(&mut $s.new.c), &mut $s.delta.n.to_rel_index_write(&mut $s.delta.c), &mut $s.total.n.to_rel_index_write(&mut $s.total.c));
   };
}

fn merge_common(s: &mut St) {
   RelIndexMerge::merge_delta_to_total_new_to_delta(&mut s.new.c, &mut s.delta.c, &mut s.total.c);
}

fn merge_indices(s: &mut St) {
   on_indices!(s, RelIndexMerge::merge_delta_to_total_new_to_delta);
}

fn restart(s: &mut St) {
   s.field = std::mem::take(&mut s.total);
   s.delta = std::mem::take(&mut s.field);
   s.total = Default::default();
   s.new = Default::default();
   RelIndexMerge::init(&mut s.new.c, &mut s.delta.c, &mut s.total.c);
   on_indices!(s, RelIndexMerge::init);
}

pub fn run(dom: u32, nk: u32, ops: &[&str], steps: &mut Vec<String>) {
   let mut s = St { new: Default::default(), delta: Default::default(), total: Default::default(), field: Default::default() };
   restart(&mut s);
   for op in ops {
      let p: Vec<&str> = op.split(':').collect();
      match p[0] {
         "i" | "h" => {
            let row: (u32, u32, u32) = (p[1].parse().unwrap(), p[2].parse().unwrap(), p[3].parse().unwrap());
            if p[0] == "h"
               && (RelFullIndexRead::contains_key(&s.total.f.to_rel_index(&s.total.c), &row)
                  || RelFullIndexRead::contains_key(&s.delta.f.to_rel_index(&s.delta.c), &row))
            {
               steps.push("2".into());
            } else {
               let b = RelFullIndexWrite::insert_if_not_present(&mut s.new.f.to_rel_index_write(&mut s.new.c), &row, ());
               steps.push(if b { "1".into() } else { "0".into() });
            }
         },
         "m" | "M" | "r" => {
            match p[0] {
               "m" => {
                  merge_common(&mut s);
                  merge_indices(&mut s);
               },
               "M" => merge_common(&mut s),
               _ => restart(&mut s),
            }
            steps.push(format!("D {} T {} E {} {}", join(&dump(&s.delta, dom, nk)), join(&dump(&s.total, dom, nk)), join(&empties(&s.delta)), join(&empties(&s.total))));
         },
         _ => panic!("bad op {}", op),
      }
   }
}
