//! binary eqrel, serial: `EqRelIndCommon<u32>` through the types the provider macros select.
//! dump layout per version (all sets are masks of full tuples (c0, c1), pseudo key 0):
//!   [ f_get f_badcnt  f_ck  f_all f_all_dups
//!     i0_some i0_get i0_get_dups i0_all i0_all_dups
//!     i1_some i1_get i1_get_dups i1_all i1_all_dups
//!     n_some n_get n_get_dups n_all n_all_dups ]
use ascent::internal::{
   RelFullIndexRead, RelFullIndexWrite, RelIndexMerge, RelIndexRead, RelIndexReadAll, ToRelIndex,
};
use ascent_byods_rels::eqrel;

use crate::{join, Acc};

type Common = eqrel::rel_ind_common!(r, (u32, u32), [[], [0], [0, 1], [1]], ser, ());
type Full = eqrel::rel_full_ind!(r, (u32, u32), [[], [0], [0, 1], [1]], ser, (), (u32, u32), ());
type I0 = eqrel::rel_ind!(r, (u32, u32), [[], [0], [0, 1], [1]], ser, (), [0], (u32,), (u32,));
type I1 = eqrel::rel_ind!(r, (u32, u32), [[], [0], [0, 1], [1]], ser, (), [1], (u32,), (u32,));
type INone = eqrel::rel_ind!(r, (u32, u32), [[], [0], [0, 1], [1]], ser, (), [], (), (u32, u32));

#[derive(Default)]
struct Ver {
   c: Common,
   f: Full,
   i0: I0,
   i1: I1,
   n: INone,
}

fn dump(v: &Ver, dom: u32) -> Vec<i64> {
   let d1 = dom + 1;
   let mut out = vec![];
   // full index [0, 1]
   {
      let ind = v.f.to_rel_index(&v.c);
      let (mut get, mut ck, mut all) = (Acc::new(1, d1), Acc::new(1, d1), Acc::new(1, d1));
      let mut badcnt = 0u64;
      for x in 0..d1 {
         for y in 0..d1 {
            if let Some(it) = ind.index_get(&(x, y)) {
               get.add(0, x, y);
               if it.count() != 1 {
                  badcnt += 1;
               }
            }
            if ind.contains_key(&(x, y)) {
               ck.add(0, x, y);
            }
         }
      }
      for (k, vals) in ind.iter_all() {
         for () in vals {
            all.add(0, *k.0, *k.1);
         }
      }
      out.push(get.masks[0] as i64);
      out.push(badcnt as i64);
      out.push(ck.masks[0] as i64);
      all.out(&mut out);
   }
   // [0]: key = column 0, value = column 1
   {
      let ind = v.i0.to_rel_index(&v.c);
      let (mut get, mut all) = (Acc::new(1, d1), Acc::new(1, d1));
      let mut some = 0u64;
      for x in 0..d1 {
         if let Some(it) = ind.index_get(&(x,)) {
            some |= 1 << x;
            for (y,) in it {
               get.add(0, x, *y);
            }
         }
      }
      for (k, vals) in ind.iter_all() {
         for (y,) in vals {
            all.add(0, k.0, *y);
         }
      }
      out.push(some as i64);
      get.out(&mut out);
      all.out(&mut out);
   }
   // [1]: key = column 1, value = column 0
   {
      let ind = v.i1.to_rel_index(&v.c);
      let (mut get, mut all) = (Acc::new(1, d1), Acc::new(1, d1));
      let mut some = 0u64;
      for y in 0..d1 {
         if let Some(it) = ind.index_get(&(y,)) {
            some |= 1 << y;
            for (x,) in it {
               get.add(0, *x, y);
            }
         }
      }
      for (k, vals) in ind.iter_all() {
         for (x,) in vals {
            all.add(0, *x, k.0);
         }
      }
      out.push(some as i64);
      get.out(&mut out);
      all.out(&mut out);
   }
   // []: key = (), value = both columns
   {
      let ind = v.n.to_rel_index(&v.c);
      let (mut get, mut all) = (Acc::new(1, d1), Acc::new(1, d1));
      let mut some = 0u64;
      if let Some(it) = ind.index_get(&()) {
         some = 1;
         for (x, y) in it {
            get.add(0, *x, *y);
         }
      }
      for ((), vals) in ind.iter_all() {
         for (x, y) in vals {
            all.add(0, *x, *y);
         }
      }
      out.push(some as i64);
      get.out(&mut out);
      all.out(&mut out);
   }
   out
}

/// `is_empty()` of every read view, in the order f, i0, i1, n: generated code skips a rule when a body relation reports empty,
/// so `true` must mean "definitely empty" (2 = the call panicked)
fn empties(v: &Ver) -> Vec<i64> {
   fn flag(f: impl FnOnce() -> bool) -> i64 {
      match std::panic::catch_unwind(std::panic::AssertUnwindSafe(f)) {
         Ok(b) => b as i64,
         Err(_) => 2,
      }
   }
   vec![
      flag(|| RelIndexRead::is_empty(&v.f.to_rel_index(&v.c))),
      flag(|| RelIndexRead::is_empty(&v.i0.to_rel_index(&v.c))),
      flag(|| RelIndexRead::is_empty(&v.i1.to_rel_index(&v.c))),
      flag(|| RelIndexRead::is_empty(&v.n.to_rel_index(&v.c))),
   ]
}

struct St {
   new: Ver,
   delta: Ver,
   total: Ver,
   field: Ver,
}

fn merge_common(s: &mut St) {
   RelIndexMerge::merge_delta_to_total_new_to_delta(&mut s.new.c, &mut s.delta.c, &mut s.total.c);
}

fn merge_indices(s: &mut St) {
   // order of generated code: indices sorted by name: _0, _0_1, _1, _none
   RelIndexMerge::merge_delta_to_total_new_to_delta(
      &mut s.new.i0.to_rel_index_write(&mut s.new.c),
      &mut s.delta.i0.to_rel_index_write(&mut s.delta.c),
      &mut s.total.i0.to_rel_index_write(&mut s.total.c),
   );
   RelIndexMerge::merge_delta_to_total_new_to_delta(
      &mut s.new.f.to_rel_index_write(&mut s.new.c),
      &mut s.delta.f.to_rel_index_write(&mut s.delta.c),
      &mut s.total.f.to_rel_index_write(&mut s.total.c),
   );
   RelIndexMerge::merge_delta_to_total_new_to_delta(
      &mut s.new.i1.to_rel_index_write(&mut s.new.c),
      &mut s.delta.i1.to_rel_index_write(&mut s.delta.c),
      &mut s.total.i1.to_rel_index_write(&mut s.total.c),
   );
   RelIndexMerge::merge_delta_to_total_new_to_delta(
      &mut s.new.n.to_rel_index_write(&mut s.new.c),
      &mut s.delta.n.to_rel_index_write(&mut s.delta.c),
      &mut s.total.n.to_rel_index_write(&mut s.total.c),
   );
}

fn restart(s: &mut St) {
   // end of a stratum: `_self.field = total` for the common structure and every index
   s.field = std::mem::take(&mut s.total);
   // start of the next stratum that has the relation in a head
   s.delta = std::mem::take(&mut s.field);
   s.total = Default::default();
   s.new = Default::default();
   RelIndexMerge::init(&mut s.new.c, &mut s.delta.c, &mut s.total.c);
   RelIndexMerge::init(
      &mut s.new.i0.to_rel_index_write(&mut s.new.c),
      &mut s.delta.i0.to_rel_index_write(&mut s.delta.c),
      &mut s.total.i0.to_rel_index_write(&mut s.total.c),
   );
   RelIndexMerge::init(
      &mut s.new.f.to_rel_index_write(&mut s.new.c),
      &mut s.delta.f.to_rel_index_write(&mut s.delta.c),
      &mut s.total.f.to_rel_index_write(&mut s.total.c),
   );
   RelIndexMerge::init(
      &mut s.new.i1.to_rel_index_write(&mut s.new.c),
      &mut s.delta.i1.to_rel_index_write(&mut s.delta.c),
      &mut s.total.i1.to_rel_index_write(&mut s.total.c),
   );
   RelIndexMerge::init(
      &mut s.new.n.to_rel_index_write(&mut s.new.c),
      &mut s.delta.n.to_rel_index_write(&mut s.delta.c),
      &mut s.total.n.to_rel_index_write(&mut s.total.c),
   );
}

pub fn run(dom: u32, ops: &[&str], steps: &mut Vec<String>) {
   let mut s = St { new: Default::default(), delta: Default::default(), total: Default::default(), field: Default::default() };
   // a program value starts with the default field; the first stratum takes it as delta
   restart(&mut s);
   for op in ops {
      let p: Vec<&str> = op.split(':').collect();
      match p[0] {
         "i" | "h" => {
            let (x, y): (u32, u32) = (p[1].parse().unwrap(), p[2].parse().unwrap());
            let row = (x, y);
            if p[0] == "h"
               && (RelFullIndexRead::contains_key(&s.total.f.to_rel_index(&s.total.c), &row)
                  || RelFullIndexRead::contains_key(&s.delta.f.to_rel_index(&s.delta.c), &row))
            {
               steps.push("2".into());
            } else {
               let b = RelFullIndexWrite::insert_if_not_present(&mut s.new.f.to_rel_index_write(&mut s.new.c), &row, ());
               steps.push(if b { "1".into() } else { "0".into() });
            }
         },
         "m" | "M" | "r" => {
            match p[0] {
               "m" => {
                  merge_common(&mut s);
                  merge_indices(&mut s);
               },
               "M" => merge_common(&mut s),
               _ => restart(&mut s),
            }
            steps.push(format!("D {} T {} E {} {}", join(&dump(&s.delta, dom)), join(&dump(&s.total, dom)), join(&empties(&s.delta)), join(&empties(&s.total))));
         },
         _ => panic!("bad op {}", op),
      }
   }
}
