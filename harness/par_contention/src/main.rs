//! par_contention (C03 / C02 / C05): BIG runs of `ascent_par!` programs (10^4-10^5 keys / tuples, each derived
//! several times in one iteration) in rayon pools of a given size. A pure driver: inputs are read from a binary file
//! written by gen/par_contention.py, the relations after `run()` are written row by row (in storage order, nothing
//! deduplicated or checked here) to a binary file that the python specification oracle reads.
//!
//! stdin, one case per line:   <program> <threads> <perturbation seed> <rounds> <input file> <output file prefix>
//!    the same input is run `rounds` times, round r in a fresh pool of <threads> workers with the perturbation hook
//!    armed with seed (0 = off; otherwise seed + r); its relations go to <prefix>.<r>
//! stdout, one line per case:  ok <ms of round 0> <ms of round 1> ...   |   panic <message>
//! file format (all u32 little endian): repeated [ name length, name bytes, arity, row count, rows ]
use std::collections::HashMap;
use std::io::{self, BufRead, Read, Write};
use std::panic::{self, AssertUnwindSafe};

use ascent::lattice::set::Set;
use ascent::{Dual, ascent_par};
use ascent::lattice::Product;

pub type Rels = HashMap<String, (usize, Vec<u32>)>;
pub type Out = Vec<(&'static str, usize, Vec<u32>)>;

fn read_rels(path: &str) -> Rels {
   let mut buf = vec![];
   std::fs::File::open(path).unwrap().read_to_end(&mut buf).unwrap();
   let word = |i: usize| u32::from_le_bytes([buf[i], buf[i + 1], buf[i + 2], buf[i + 3]]);
   let mut rels = Rels::new();
   let mut i = 0;
   while i < buf.len() {
      let nl = word(i) as usize;
      let name = String::from_utf8(buf[i + 4..i + 4 + nl].to_vec()).unwrap();
      i += 4 + nl;
      let arity = word(i) as usize;
      let n = word(i + 4) as usize;
      i += 8;
      let mut data = Vec::with_capacity(n * arity);
      for j in 0..n * arity {
         data.push(word(i + 4 * j));
      }
      i += 4 * n * arity;
      rels.insert(name, (arity, data));
   }
   rels
}

fn write_rels(path: &str, out: &Out) {
   let mut buf: Vec<u8> = vec![];
   for (name, arity, data) in out {
      buf.extend((name.len() as u32).to_le_bytes());
      buf.extend(name.as_bytes());
      buf.extend((*arity as u32).to_le_bytes());
      buf.extend(((data.len() / arity) as u32).to_le_bytes());
      for w in data {
         buf.extend(w.to_le_bytes());
      }
   }
   std::fs::File::create(path).unwrap().write_all(&buf).unwrap();
}

fn rows2(r: &Rels, name: &str) -> Vec<(u32, u32)> {
   let (a, d) = r.get(name).unwrap_or_else(|| panic!("input relation {name} missing"));
   assert_eq!(*a, 2);
   d.chunks(2).map(|c| (c[0], c[1])).collect()
}
fn rows3(r: &Rels, name: &str) -> Vec<(u32, u32, u32)> {
   let (a, d) = r.get(name).unwrap_or_else(|| panic!("input relation {name} missing"));
   assert_eq!(*a, 3);
   d.chunks(3).map(|c| (c[0], c[1], c[2])).collect()
}

/// the elements of a Set<u32> (all < 32) as a bit mask
fn mask(s: &Set<u32>) -> u32 { s.iter().fold(0u32, |m, b| m | (1u32 << *b)) }

// ------------------------------------------------------------------ the programs

/// one rule, integers (join = max)
mod best {
   use super::*;
   ascent_par! {
      pub struct Prog;
      relation inp(u32, u32);
      lattice best(u32, u32);
      best(k, v) <-- inp(k, v);
   }
   pub fn run(r: &Rels) -> Out {
      let mut p = Prog::default();
      p.inp = rows2(r, "inp").into_iter().collect();
      p.run();
      let mut best = vec![];
      for row in p.best.iter() {
         let row = row.read().unwrap();
         best.extend([row.0, row.1]);
      }
      vec![("best", 2, best)]
   }
}

/// two rules feeding one lattice with a two-column key (Dual: join = min), run side by side
/// (#![inter_rule_parallelism]); a plain relation reads the result through an upward-closed test
mod two {
   use super::*;
   ascent_par! {
      #![inter_rule_parallelism]
      pub struct Prog;
      relation a(u32, u32, u32);
      relation b(u32, u32, u32);
      lattice l(u32, u32, Dual<u32>);
      l(x, y, Dual(*v)) <-- a(x, y, v);
      l(x, y, Dual(*v)) <-- b(x, y, v);
      relation low(u32, u32);
      low(x, y) <-- l(x, y, v), if v.0 < 500;
   }
   pub fn run(r: &Rels) -> Out {
      let mut p = Prog::default();
      p.a = rows3(r, "a").into_iter().collect();
      p.b = rows3(r, "b").into_iter().collect();
      p.run();
      let mut l = vec![];
      for row in p.l.iter() {
         let row = row.read().unwrap();
         l.extend([row.0, row.1, row.2.0]);
      }
      let mut low = vec![];
      for row in p.low.iter() {
         low.extend([row.0, row.1]);
      }
      vec![("l", 3, l), ("low", 2, low)]
   }
}

/// recursion through the lattice (cheapest path) next to the same recursion on a plain relation: the keys of one
/// layer are created in one iteration, each from several predecessors, and improved in the same and in later ones
mod flow {
   use super::*;
   ascent_par! {
      #![inter_rule_parallelism]
      pub struct Prog;
      relation src(u32, u32);
      relation next(u32, u32, u32);
      lattice d(u32, Dual<u32>);
      d(k, Dual(*v)) <-- src(k, v);
      d(j, Dual(v.0 + *w)) <-- next(k, j, w), d(k, v);
      relation seen(u32);
      seen(k) <-- src(k, _);
      seen(j) <-- next(k, j, _), seen(k);
   }
   pub fn run(r: &Rels) -> Out {
      let mut p = Prog::default();
      p.src = rows2(r, "src").into_iter().collect();
      p.next = rows3(r, "next").into_iter().collect();
      p.run();
      let mut d = vec![];
      for row in p.d.iter() {
         let row = row.read().unwrap();
         d.extend([row.0, row.1.0]);
      }
      let mut seen = vec![];
      for row in p.seen.iter() {
         seen.push(row.0);
      }
      vec![("d", 2, d), ("seen", 1, seen)]
   }
}

/// partial orders: a set (join = union) and a product of an increasing and a decreasing component; an orphaned
/// row shows up as a proper part of the join
mod part {
   use super::*;
   ascent_par! {
      pub struct Prog;
      relation e(u32, u32, u32);
      lattice s(u32, Set<u32>);
      s(k, Set::singleton(*a % 32)) <-- e(k, a, _);
      lattice pr(u32, Product<(u32, Dual<u32>)>);
      pr(k, Product((*a, Dual(*b)))) <-- e(k, a, b);
      relation big(u32);
      big(k) <-- s(k, st), if st.len() >= 3;
   }
   pub fn run(r: &Rels) -> Out {
      let mut p = Prog::default();
      p.e = rows3(r, "e").into_iter().collect();
      p.run();
      let mut s = vec![];
      for row in p.s.iter() {
         let row = row.read().unwrap();
         s.extend([row.0, mask(&row.1)]);
      }
      let mut pr = vec![];
      for row in p.pr.iter() {
         let row = row.read().unwrap();
         pr.extend([row.0, row.1.0.0, row.1.0.1.0]);
      }
      let mut big = vec![];
      for row in p.big.iter() {
         big.push(row.0);
      }
      vec![("s", 2, s), ("pr", 3, pr), ("big", 1, big)]
   }
}

/// plain relations: many distinct tuples, each derived several times in one iteration (projections), and a join
mod plain {
   use super::*;
   ascent_par! {
      #![inter_rule_parallelism]
      pub struct Prog;
      relation e(u32, u32, u32);
      relation f(u32, u32);
      relation r(u32, u32);
      r(x, y) <-- e(x, y, _);
      relation q(u32);
      q(y) <-- e(_, y, _);
      q(y) <-- f(y, _);
      relation j(u32, u32);
      j(x, z) <-- r(x, y), f(y, z);
   }
   pub fn run(rl: &Rels) -> Out {
      let mut p = Prog::default();
      p.e = rows3(rl, "e").into_iter().collect();
      p.f = rows2(rl, "f").into_iter().collect();
      p.run();
      let mut r = vec![];
      for row in p.r.iter() {
         r.extend([row.0, row.1]);
      }
      let mut q = vec![];
      for row in p.q.iter() {
         q.push(row.0);
      }
      let mut j = vec![];
      for row in p.j.iter() {
         j.extend([row.0, row.1]);
      }
      vec![("r", 2, r), ("q", 1, q), ("j", 2, j)]
   }
}

fn run_program(name: &str, r: &Rels) -> Out {
   match name {
      "best" => best::run(r),
      "two" => two::run(r),
      "flow" => flow::run(r),
      "part" => part::run(r),
      "plain" => plain::run(r),
      _ => panic!("unknown program {name}"),
   }
}

fn main() {
   panic::set_hook(Box::new(|_| {}));
   let stdin = io::stdin();
   let stdout = io::stdout();
   for line in stdin.lock().lines() {
      let line = line.unwrap();
      let f: Vec<&str> = line.split_whitespace().collect();
      if f.len() != 6 {
         continue;
      }
      let (name, threads, seed, rounds) = (f[0], f[1].parse::<usize>().unwrap(), f[2].parse::<u64>().unwrap(), f[3].parse::<u64>().unwrap());
      let res = panic::catch_unwind(AssertUnwindSafe(|| {
         let rels = read_rels(f[4]);
         let mut ms = vec![];
         for r in 0..rounds {
            let pool = ascent::rayon::ThreadPoolBuilder::new().num_threads(threads).build().unwrap();
            let t0 = std::time::Instant::now();
            let out = pool.install(|| {
               ascent::verif_hooks::arm_perturb(if seed == 0 { 0 } else { seed + r });
               let out = run_program(name, &rels);
               ascent::verif_hooks::arm_perturb(0);
               out
            });
            ms.push(t0.elapsed().as_millis().to_string());
            write_rels(&format!("{}.{}", f[5], r), &out);
         }
         ms
      }));
      let mut so = stdout.lock();
      match res {
         Ok(ms) => writeln!(so, "ok {}", ms.join(" ")).unwrap(),
         Err(e) => {
            let msg = if let Some(s) = e.downcast_ref::<&str>() { s.to_string() } else if let Some(s) = e.downcast_ref::<String>() { s.clone() } else { "?".to_string() };
            writeln!(so, "panic {}", msg.replace('\n', " ")).unwrap()
         },
      }
      so.flush().unwrap();
   }
}
